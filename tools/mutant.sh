#!/bin/bash
# usage: tools/mutant.sh <name> <patch.diff> <property> [more properties...]   (env TIER=quick|thorough, SEED=n)
# Applies the patch to a private copy of /repo (tools/scratch.sh), builds the monitors against it and runs the
# given checks there (evidence/replays go to the scratch verifroot). Prints one summary line per check.
set -u
NAME="$1"; PATCH="$2"; shift 2
D=/var/tmp/scratch-$NAME
/verif/tools/scratch.sh "$NAME" >/dev/null || exit 2
( cd $D/repo && git init -q 2>/dev/null; git apply --whitespace=nowarn "$PATCH" ) || { echo "PATCH-DOES-NOT-APPLY $PATCH"; exit 2; }
source /verif/env.sh
cd $D/harness
go build -tags verif -o $D/qv ./cmd/qv 2>$D/build.log || { echo "BUILD-FAILED"; tail -5 $D/build.log; exit 2; }
NEEDRACE=0
for p in "$@"; do case $p in C06|C10|C17|C18|C20) NEEDRACE=1;; esac; done
if [ $NEEDRACE = 1 ]; then go build -race -tags verif -o $D/qv-race ./cmd/qv 2>>$D/build.log && export QV_RACE_BIN=$D/qv-race; fi
export QV_BIN=$D/qv
for p in "$@"; do
  s=$(date +%s)
  $D/qv run $p --tier ${TIER:-quick} --seed ${SEED:-1} --root $D/verifroot > $D/$p.log 2>&1; rc=$?
  e=$(date +%s)
  echo "$NAME $p rc=$rc $((e-s))s viol=$(grep -c '^VIOLATION' $D/$p.log) known=$(grep -c '^KNOWN-FINDING' $D/$p.log) | $(grep -m1 '  key=' $D/$p.log) | $(egrep '^RESULT|^INCONCLUSIVE prop' $D/$p.log | tail -1 | cut -c1-110)"
done
