#!/bin/bash
# usage: tools/confirm_seeded.sh <seeded-id> <property> <worktree> <patch> <demo-run-script | "cmd: <shell command run in the worktree>"> [demo files...]
# Confirms an independently written property-breaking change in ITS scratch worktree:
#   clean tree: demonstration passes; with the patch: builds (also -tags verif), pinned suite passes, demonstration fails.
# On success stores it under /verif/seeded/<seeded-id>/ (patch.diff, demonstration files, run script, confirm.log).
set -u
ID="$1"; PROP="$2"; WT="$3"; PATCH="$4"; RUN="$5"; shift 5
OUT=/verif/seeded/$ID
LOG=$(mktemp)
say() { echo "$@" | tee -a "$LOG"; }
cd "$WT" || exit 2
git checkout -q -- . || exit 2
rundemo() {
  case "$RUN" in
    cmd:*) ( cd "$WT" && export WORKTREE="$WT" && eval "${RUN#cmd:}" ) ;;
    *) bash "$RUN" "$WT" ;;
  esac
}
say "== clean tree: demonstration"
rundemo >>"$LOG" 2>&1; RC0=$?
say "demo on clean tree: rc=$RC0"
git apply "$PATCH" || { say "patch does not apply"; exit 2; }
source /tmp/qedenv/env.sh
say "== with patch: build"
( go build ./... && go build -tags verif ./... ) >>"$LOG" 2>&1; RCB=$?
say "build: rc=$RCB"
say "== with patch: pinned suite (demonstration files moved aside)"
ASIDE=$(mktemp -d)
for f in $(git ls-files --others --exclude-standard | grep '_test\.go$' | grep -E '^(client|crypto|gossip|log|storage/bplus|testutils/spec)/'); do mkdir -p "$ASIDE/$(dirname $f)"; mv "$f" "$ASIDE/$f"; done
( unset CGO_CFLAGS CGO_CXXFLAGS CGO_LDFLAGS CXX CGO_LDFLAGS_ALLOW; /tmp/qedenv/pinned_tests.sh "$WT" ) >>"$LOG" 2>&1; RCP=$?
( cd "$ASIDE" && find . -type f | while read f; do mv "$f" "$WT/$f"; done ); rm -rf "$ASIDE"
say "pinned suite: rc=$RCP"
say "== with patch: demonstration"
rundemo >>"$LOG" 2>&1; RC1=$?
say "demo with patch: rc=$RC1"
git checkout -q -- .
if [ $RC0 = 0 ] && [ $RCB = 0 ] && [ $RCP = 0 ] && [ $RC1 != 0 ]; then
  mkdir -p "$OUT"
  cp "$PATCH" "$OUT/patch.diff"
  case "$RUN" in cmd:*) echo "${RUN#cmd:}" > "$OUT/run_command.txt"; RS=$(echo "${RUN#cmd:}" | grep -o '/tmp/mut-[^ ]*run[0-9]*\.sh' | head -1); [ -n "$RS" ] && cp "$RS" "$OUT/run.sh";; *) cp "$RUN" "$OUT/run.sh";; esac
  for f in "$@"; do cp "$f" "$OUT/"; done
  [ -f "$(dirname "$PATCH")/notes.md" ] && cp "$(dirname "$PATCH")/notes.md" "$OUT/notes.md"
  tail -c 6000 "$LOG" > "$OUT/confirm.log"
  say "CONFIRMED $ID ($PROP) -> $OUT"
  rm -f "$LOG"; exit 0
fi
say "NOT-CONFIRMED $ID ($PROP): clean=$RC0 build=$RCB pinned=$RCP patched=$RC1 (log $LOG)"
exit 1
