#!/bin/bash
# usage: tools/scratch.sh <name> [sync]
# Creates /var/tmp/scratch-<name>/{repo,harness,verifroot}: a private copy of /repo (edit it freely to
# break a property) and a copy of the harness whose go.mod points at that copy. `sync` re-copies the
# harness sources (keeps the scratch repo and its edits). Build and run there with:
#   source /verif/env.sh; cd /var/tmp/scratch-<name>/harness
#   go build -tags verif -o ../qv ./cmd/qv && QV_BIN=$PWD/../qv ../qv run C14 --root /var/tmp/scratch-<name>/verifroot
# (race variant: go build -race -tags verif -o ../qv-race ./cmd/qv; export QV_RACE_BIN=$PWD/../qv-race)
# Remove the directory when done: rm -rf /var/tmp/scratch-<name>
set -e
N="${1:?name}"; D=/var/tmp/scratch-$N
if [ "${2:-}" != "sync" ]; then
  rm -rf "$D"; mkdir -p "$D/verifroot"
  rsync -a --exclude .git /repo/ "$D/repo/"
fi
mkdir -p "$D/verifroot"
rsync -a --delete --exclude go.mod /verif/harness/ "$D/harness/"
sed "s|=> /repo|=> $D/repo|" /verif/harness/go.mod > "$D/harness/go.mod"
cp /verif/known_findings.json "$D/verifroot/"
echo "$D ready"
