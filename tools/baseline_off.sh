#!/bin/bash
# Runs /repo's pinned baseline suite with the verif guard OFF (no -tags verif, no shim env)
# and compares with /root/.vp/BASELINE.json: every stable_pass test must pass.
set -u
export GOFLAGS=-mod=mod GOPROXY=off GOSUMDB=off GOTOOLCHAIN=local
OUT=$(mktemp)
( cd /repo && go test -json -vet=off -count=1 -timeout 25m ./... ) >"$OUT" 2>/dev/null
python3 - "$OUT" <<'PY'
import json,sys
passed=set()
for line in open(sys.argv[1]):
    try: e=json.loads(line)
    except Exception: continue
    if e.get('Action')=='pass' and e.get('Test'):
        passed.add(e['Package']+'::'+e['Test'])
base=json.load(open('/root/.vp/BASELINE.json'))['stable_pass']
missing=[t for t in base if t not in passed]
print("baseline tests: %d, passed now: %d, missing: %d"%(len(base),len(base)-len(missing),len(missing)))
for t in missing: print("  NOT PASSING:",t)
sys.exit(1 if missing else 0)
PY
rc=$?
rm -f "$OUT"
( cd /repo && git status --short | grep -v '^??' ) && echo "WARNING: /repo has modified tracked files"
exit $rc
