/* removed in RocksDB 7.x; same API lives in backup_engine.h */
#include "/usr/include/rocksdb/utilities/backup_engine.h"
