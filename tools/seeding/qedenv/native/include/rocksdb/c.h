/* Shim placed before the system header: adapts QED's RocksDB-6.x-era cgo wrapper
 * to the installed librocksdb 7.8.3 without editing /repo. See DESIGN.md §1.1. */
#ifndef QED_SHIM_ROCKSDB_C_H
#define QED_SHIM_ROCKSDB_C_H

/* QED redeclares this one with another argument order (extended.h); hide the system declaration. */
#define rocksdb_backup_engine_restore_db_from_backup rocksdb_backup_engine_restore_db_from_backup__sys
/* 7.x takes double bits_per_key; QED passes int. Rename the system ones, provide int adaptors. */
#define rocksdb_filterpolicy_create_bloom rocksdb_filterpolicy_create_bloom__sys
#define rocksdb_filterpolicy_create_bloom_full rocksdb_filterpolicy_create_bloom_full__sys
#include "/usr/include/rocksdb/c.h"
#undef rocksdb_backup_engine_restore_db_from_backup
#undef rocksdb_filterpolicy_create_bloom
#undef rocksdb_filterpolicy_create_bloom_full

#ifdef __cplusplus
extern "C" {
#endif
extern rocksdb_filterpolicy_t* qedshim_filterpolicy_create_bloom(int bits_per_key);
extern rocksdb_filterpolicy_t* qedshim_filterpolicy_create_bloom_full(int bits_per_key);
#define rocksdb_filterpolicy_create_bloom qedshim_filterpolicy_create_bloom
#define rocksdb_filterpolicy_create_bloom_full qedshim_filterpolicy_create_bloom_full

/* removed in 7.x (option no longer exists): no-op */
static inline void rocksdb_block_based_options_set_hash_index_allow_collision(
    rocksdb_block_based_table_options_t* o, unsigned char v) { (void)o; (void)v; }
#ifdef __cplusplus
}
#endif
#endif
