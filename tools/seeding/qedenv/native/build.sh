#!/bin/sh
# builds native/lib/libjemalloc.a (stub carrying the bloom adaptors; flags.go links -ljemalloc)
set -e
cd "$(dirname "$0")"
mkdir -p lib
gcc -O2 -fPIC -c shim.c -o lib/shim.o
rm -f lib/libjemalloc.a
ar rcs lib/libjemalloc.a lib/shim.o
