/* int -> double adaptors for the bloom filter constructors (RocksDB 7.x C API). */
typedef struct rocksdb_filterpolicy_t rocksdb_filterpolicy_t;
extern rocksdb_filterpolicy_t* rocksdb_filterpolicy_create_bloom(double bits_per_key);
extern rocksdb_filterpolicy_t* rocksdb_filterpolicy_create_bloom_full(double bits_per_key);
rocksdb_filterpolicy_t* qedshim_filterpolicy_create_bloom(int b) { return rocksdb_filterpolicy_create_bloom((double)b); }
rocksdb_filterpolicy_t* qedshim_filterpolicy_create_bloom_full(int b) { return rocksdb_filterpolicy_create_bloom_full((double)b); }
