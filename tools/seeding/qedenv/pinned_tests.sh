#!/bin/bash
# usage: pinned_tests.sh <worktree>  — runs the pinned baseline suite (the 104 tests that must keep passing).
# Run it WITHOUT sourcing env.sh: the pinned suite is exactly the packages that build without RocksDB.
cd "$1" && GOFLAGS=-mod=mod GOPROXY=off GOSUMDB=off go test -vet=off -count=1 ./client/ ./crypto/hashing/ ./crypto/sign/ ./gossip/ ./log/ ./storage/bplus/ ./testutils/spec/
