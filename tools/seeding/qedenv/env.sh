# build environment for BBVA/QED in this sandbox (RocksDB 7.8.3 via a small shim); source it in every shell call
export GOFLAGS=-mod=mod GOPROXY=off GOSUMDB=off GOTOOLCHAIN=local CGO_ENABLED=1
export CGO_LDFLAGS_ALLOW='-Wl,-unresolved_symbols=ignore-all'
QN=/tmp/qedenv/native
QED_SHIM_REV=$(cat $QN/include/rocksdb/c.h $QN/include/rocksdb/utilities/backupable_db.h $QN/shim.c $QN/bin/cxx17 | sha256sum | cut -c1-16)
export CGO_CFLAGS="-I$QN/include -DQED_SHIM_REV=$QED_SHIM_REV -O2 -g"
export CGO_CXXFLAGS="-I$QN/include -DQED_SHIM_REV=$QED_SHIM_REV -O2 -g"
export CGO_LDFLAGS="-L$QN/lib"
export CXX="$QN/bin/cxx17"
