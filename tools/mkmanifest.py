#!/usr/bin/env python3
"""Generates /verif/MANIFEST.json from the table below (kept next to the checks so that
the manifest is always consistent with what ./check can run)."""
import json, subprocess, os
ROOT = os.path.dirname(os.path.dirname(os.path.abspath(__file__)))

# id -> (level, technique, level_text, level_note, design_ref, engine)
CHECKS = {}
NA = {}

def chk(pid, technique, text, note, level="exploration", engine="qv"):
    CHECKS[pid] = dict(level=level, technique=technique, text=text, note=note, engine=engine)

exec(open(os.path.join(ROOT, "tools", "checks_table.py")).read())

props = [json.loads(l)["id"] for l in open(os.path.join(ROOT, "properties.jsonl"))]
hooks_commits = subprocess.run(["git", "-C", "/repo", "log", "--format=%h %s", "--grep=^verif hooks"],
                               capture_output=True, text=True).stdout.strip().splitlines()
m = {
 "version": 1,
 "setup_cmd": "./setup.sh",
 "hooks": {
  "guard": "verif",
  "enable": "go build -tags verif (harness module replaces github.com/bbva/qed => /repo); add-only files */verif_export.go carrying //go:build verif",
  "baseline_off_cmd": "./tools/baseline_off.sh",
  "source_commits": [c.split()[0] for c in hooks_commits],
  "add_only": True,
 },
 "engines": [
  {"name": "qv", "path": "harness/cmd/qv", "serves_properties": sorted(CHECKS.keys()),
   "kind_free_text": "Go binary built against /repo's working tree with -tags verif: drives the real balloon / raft node / server / gossip agent / client under seeded hostile workloads while reference models, history checkers (porcupine + purpose-built), invariant hooks and fault injectors at interface seams observe; race-detector builds (qv-race) for the concurrency clauses"},
 ],
 "checks": [],
 "not_applicable": [],
 "notes": "Technique family: runtime monitoring and sanitizers. All verdicts are 'held on what was observed'. ./check <id> [quick|thorough] rebuilds from /repo's working tree; exit 0 held / 1 VIOLATION / 2 build error / 3 inconclusive. known_findings.json lists open and fixed genuine defects.",
}
for pid in props:
    if pid in CHECKS:
        c = CHECKS[pid]
        m["checks"].append({
            "property_id": pid,
            "quick_cmd": "./check %s quick" % pid,
            "thorough_cmd": "./check %s thorough" % pid,
            "evidence_file": "/verif/evidence/%s.json" % pid,
            "replay_cmd_template": "./check %s --replay {path}" % pid,
            "engine": c["engine"],
            "level_claimed": {"category": c["level"], "text": c["text"], "design_ref": "DESIGN.md §6 " + pid},
            "level_note": c["note"],
            "technique": c["technique"],
        })
    else:
        m["not_applicable"].append({"property_id": pid, "reason": NA.get(pid, "check not built yet in this tree (runtime-monitoring design exists in DESIGN.md §6); not claimed")})
json.dump(m, open(os.path.join(ROOT, "MANIFEST.json"), "w"), indent=1)
print("MANIFEST.json: %d checks, %d not claimed" % (len(m["checks"]), len(m["not_applicable"])))
