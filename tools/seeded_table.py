#!/usr/bin/env python3
"""Prints the markdown table of seeded changes (from seeded/*/meta.json) for DESIGN.md section 10."""
import json, glob, os
rows = []
for f in sorted(glob.glob('/verif/seeded/*/meta.json')):
    m = json.load(open(f))
    det = '; '.join("%s (`%s`)%s" % (d['check'], d['violation_key'], (' - ' + d['note']) if d.get('note') else '') for d in m['detected_by'])
    rows.append("| `%s` | %s | %s | %s |" % (m['id'], m['breaks_property'], m['needs_to_manifest'], det))
print("| seeded change | breaks | needs, to manifest | caught by (quick tier, seed 1) |")
print("|---|---|---|---|")
print("\n".join(rows))
