#!/bin/bash
# usage: tools/runall.sh [quick|thorough] [ids...]  — runs registered checks sequentially, prints one summary line each
cd "$(dirname "$0")/.."
TIER=${1:-quick}; shift
IDS="$@"
[ -z "$IDS" ] && IDS=$(python3 -c "import json;print(' '.join(c['property_id'] for c in json.load(open('MANIFEST.json'))['checks']))")
mkdir -p /var/tmp/runall
for p in $IDS; do
  s=$(date +%s)
  ./check $p $TIER > /var/tmp/runall/$p.$TIER.log 2>&1; rc=$?
  e=$(date +%s)
  echo "$p rc=$rc $((e-s))s $(egrep -c '^VIOLATION' /var/tmp/runall/$p.$TIER.log) violations, $(egrep -c '^KNOWN-FINDING' /var/tmp/runall/$p.$TIER.log) known, $(egrep -c '^INCONCLUSIVE' /var/tmp/runall/$p.$TIER.log) inconclusive | $(egrep '^RESULT|^INCONCLUSIVE property' /var/tmp/runall/$p.$TIER.log | tail -1 | cut -c1-150)"
done
