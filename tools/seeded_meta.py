#!/usr/bin/env python3
"""usage: seeded_meta.py <seeded-id> <property> "<needs to manifest>" "<check>:<key>[:note]" ...
Writes /verif/seeded/<id>/meta.json (which property the change breaks, what it needs, what was run, which checks catch it)."""
import json, sys, os
sid, prop, needs = sys.argv[1:4]
det = []
for d in sys.argv[4:]:
    parts = d.split('|')
    det.append({"check": parts[0], "tier": "quick", "seed": 1, "violation_key": parts[1] if len(parts) > 1 else "", "note": parts[2] if len(parts) > 2 else ""})
p = os.path.join('/verif/seeded', sid)
log = open(os.path.join(p, 'confirm.log')).read() if os.path.exists(os.path.join(p, 'confirm.log')) else ''
meta = {
 "id": sid, "breaks_property": prop,
 "origin": "written by a fresh sub-agent that was given only the property text and a scratch worktree of /repo (nothing from /verif)",
 "needs_to_manifest": needs,
 "confirmed_in_scratch_worktree": {
   "how": "tools/confirm_seeded.sh: demonstration passes on the clean tree; with patch.diff applied `go build ./...` and `go build -tags verif ./...` succeed, the pinned suite (/tmp/qedenv/pinned_tests.sh = the 104 baseline tests' packages) passes, the demonstration fails",
   "log_tail": [l for l in log.splitlines() if l.startswith(('demo', 'build', 'pinned', 'CONFIRMED'))],
 },
 "checks_run_against_it": "tools/mutant.sh (private copy of /repo with the patch applied, monitors rebuilt against it, quick tier, seed 1)",
 "detected_by": det,
}
json.dump(meta, open(os.path.join(p, 'meta.json'), 'w'), indent=1)
print("wrote", os.path.join(p, 'meta.json'))
