#!/bin/bash
# Run once after a fresh restore, offline: builds the native shim and warms the Go build
# cache for the monitors (plain and race builds) from files on disk only.
set -e
cd "$(dirname "${BASH_SOURCE[0]}")"
source ./env.sh
./native/build.sh
mkdir -p bin evidence replays
( cd harness && go build -tags verif -o ../bin/qv ./cmd/qv )
( cd harness && go build -race -tags verif -o ../bin/qv-race ./cmd/qv )
echo "setup ok"
