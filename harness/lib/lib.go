// Package lib is the shared runtime of the monitors: deterministic PRNG streams,
// three-valued verdict bookkeeping, evidence files, known-findings matching, replay files.
package lib

import (
	"encoding/hex"
	"encoding/json"
	"fmt"
	"hash/fnv"
	"io/ioutil"
	"os"
	"path/filepath"
	"sort"
	"sync"
	"time"
)

// ---------- PRNG (splitmix64) ----------

type Rand struct{ s uint64 }

func NewRand(seed uint64) *Rand { return &Rand{s: seed} }

func (r *Rand) Uint64() uint64 {
	r.s += 0x9e3779b97f4a7c15
	z := r.s
	z = (z ^ (z >> 30)) * 0xbf58476d1ce4e5b9
	z = (z ^ (z >> 27)) * 0x94d049bb133111eb
	return z ^ (z >> 31)
}
func (r *Rand) Intn(n int) int {
	if n <= 0 {
		return 0
	}
	return int(r.Uint64() % uint64(n))
}
func (r *Rand) Bool() bool           { return r.Uint64()&1 == 1 }
func (r *Rand) Float() float64       { return float64(r.Uint64()>>11) / float64(1<<53) }
func (r *Rand) Range(lo, hi int) int { return lo + r.Intn(hi-lo+1) } // inclusive
func (r *Rand) Bytes(n int) []byte {
	b := make([]byte, n)
	for i := 0; i < n; i += 8 {
		v := r.Uint64()
		for j := 0; j < 8 && i+j < n; j++ {
			b[i+j] = byte(v >> (8 * uint(j)))
		}
	}
	return b
}
func (r *Rand) Perm(n int) []int {
	p := make([]int, n)
	for i := range p {
		p[i] = i
	}
	for i := n - 1; i > 0; i-- {
		j := r.Intn(i + 1)
		p[i], p[j] = p[j], p[i]
	}
	return p
}
func (r *Rand) Pick(xs ...int) int { return xs[r.Intn(len(xs))] }

func hashStr(s string) uint64 {
	h := fnv.New64a()
	h.Write([]byte(s))
	return h.Sum64()
}

// Note on memory: every QED balloon allocates a 1.15 GB BatchCache which the Go runtime
// clears page by page. In this VM a first-touch page fault costs 20-50 us and first-touch
// throughput does not scale with threads (about 3 s per balloon machine-wide), while memory
// the process already owns is re-used ~100x cheaper. Checks therefore build few balloons at
// a time (2 workers): the allocator then keeps re-using the same two regions.

// ---------- known findings ----------

type Finding struct {
	Property string `json:"property"`
	Key      string `json:"key"`
	Status   string `json:"status"` // open | fixed
	Commit   string `json:"commit,omitempty"`
	What     string `json:"what"`
}

type findingsFile struct {
	Findings []Finding `json:"findings"`
}

// ---------- context ----------

type violation struct {
	Key    string      `json:"key"`
	What   string      `json:"what"`
	Replay string      `json:"replay"`
	Detail interface{} `json:"detail,omitempty"`
}

type Ctx struct {
	Prop       string
	Tier       string
	Seed       int64
	Root       string // /verif
	Scratch    string // per-run scratch dir (removed by Finish)
	Level      string
	Rule       string
	Only       string // replay filter: run only the case with this id ("" = all)
	NoEvidence bool   // replay runs do not rewrite the evidence file
	Assume     []string
	Trusted    []string
	start      time.Time
	mu         sync.Mutex
	evals      int
	distinct   map[string]bool
	samples    []interface{}
	maxSamp    int
	counters   map[string]int64
	sets       map[string]map[string]bool
	incon      []string
	viol       []violation
	known      map[string]Finding
	knownHit   map[string]int
	extra      map[string]interface{}
}

func (c *Ctx) Thorough() bool { return c.Tier == "thorough" }

// Q returns q in the quick tier and t in the thorough tier.
func (c *Ctx) Q(q, t int) int {
	if c.Thorough() {
		return t
	}
	return q
}

func NewCtx(prop, tier string, seed int64, root string) *Ctx {
	c := &Ctx{Prop: prop, Tier: tier, Seed: seed, Root: root, Level: "exploration",
		start: time.Now(), distinct: map[string]bool{}, counters: map[string]int64{},
		sets: map[string]map[string]bool{}, known: map[string]Finding{}, knownHit: map[string]int{},
		extra: map[string]interface{}{}, maxSamp: 6}
	base := os.Getenv("QV_SCRATCH")
	if base == "" {
		base = "/var/tmp"
	}
	c.Scratch = filepath.Join(base, fmt.Sprintf("qv-%s-%d-%d", prop, seed, os.Getpid()))
	os.RemoveAll(c.Scratch)
	os.MkdirAll(c.Scratch, 0755)
	if buf, err := ioutil.ReadFile(filepath.Join(root, "known_findings.json")); err == nil {
		var ff findingsFile
		if json.Unmarshal(buf, &ff) == nil {
			for _, f := range ff.Findings {
				if f.Property == prop && f.Status == "open" {
					c.known[f.Key] = f
				}
			}
		}
	}
	return c
}

// Rand returns the deterministic stream named `stream` for this (seed, property).
func (c *Ctx) Rand(stream string) *Rand {
	return NewRand(uint64(c.Seed)*0x9e3779b97f4a7c15 ^ hashStr(c.Prop+"/"+stream))
}

// Dir returns a fresh scratch sub-directory.
func (c *Ctx) Dir(name string) string {
	d := filepath.Join(c.Scratch, name)
	os.RemoveAll(d)
	os.MkdirAll(d, 0755)
	return d
}

// Case records one evaluated case. sig identifies its shape; nontrivial says whether it counts.
func (c *Ctx) Case(sig string, nontrivial bool) {
	c.mu.Lock()
	c.evals++
	if nontrivial {
		c.distinct[sig] = true
	}
	c.mu.Unlock()
}

// Evals adds n evaluations without a distinct signature.
func (c *Ctx) Evals(n int) {
	c.mu.Lock()
	c.evals += n
	c.mu.Unlock()
}

func (c *Ctx) Count(name string, n int64) {
	c.mu.Lock()
	c.counters[name] += n
	c.mu.Unlock()
}

func (c *Ctx) Counter(name string) int64 {
	c.mu.Lock()
	defer c.mu.Unlock()
	return c.counters[name]
}

// Seen records a member of a named set (distinct shapes, interleavings, states ...).
func (c *Ctx) Seen(set, member string) {
	c.mu.Lock()
	m := c.sets[set]
	if m == nil {
		m = map[string]bool{}
		c.sets[set] = m
	}
	m[member] = true
	c.mu.Unlock()
}

func (c *Ctx) Sample(v interface{}) {
	c.mu.Lock()
	if len(c.samples) < c.maxSamp {
		c.samples = append(c.samples, v)
	}
	c.mu.Unlock()
}

func (c *Ctx) Extra(k string, v interface{}) {
	c.mu.Lock()
	c.extra[k] = v
	c.mu.Unlock()
}

func (c *Ctx) Inconclusive(what string) {
	c.mu.Lock()
	c.incon = append(c.incon, what)
	c.mu.Unlock()
	fmt.Printf("INCONCLUSIVE-CASE property=%s %s\n", c.Prop, what)
}

// Violation records a refuting observation. key is the stable signature of the failing
// input / call site / history class; detail goes into the replay file.
func (c *Ctx) Violation(key, what string, detail interface{}) {
	c.mu.Lock()
	defer c.mu.Unlock()
	if f, ok := c.known[key]; ok {
		c.knownHit[key]++
		if c.knownHit[key] == 1 {
			fmt.Printf("KNOWN-FINDING: property=%s %s [%s]\n", c.Prop, f.What, key)
		}
		return
	}
	for _, v := range c.viol {
		if v.Key == key && len(c.viol) > 0 {
			// same signature again: count, keep the first witness only
			c.counters["violations_repeated:"+key]++
			return
		}
	}
	dir := filepath.Join(c.Root, "replays")
	os.MkdirAll(dir, 0755)
	path := filepath.Join(dir, fmt.Sprintf("%s-%s-seed%d-%d.json", c.Prop, c.Tier, c.Seed, len(c.viol)))
	rep := map[string]interface{}{"property": c.Prop, "tier": c.Tier, "seed": c.Seed, "key": key, "what": what, "detail": detail}
	buf, _ := json.MarshalIndent(rep, "", " ")
	ioutil.WriteFile(path, buf, 0644)
	c.viol = append(c.viol, violation{Key: key, What: what, Replay: path, Detail: nil})
	fmt.Printf("VIOLATION property=%s replay=%s\n", c.Prop, path)
	fmt.Printf("  key=%s\n  what=%s\n", key, what)
}

func (c *Ctx) Violations() int {
	c.mu.Lock()
	defer c.mu.Unlock()
	return len(c.viol)
}

// Finish writes the evidence file, prints the verdict and returns the exit code.
func (c *Ctx) Finish() int {
	c.mu.Lock()
	defer c.mu.Unlock()
	os.RemoveAll(c.Scratch)
	cov := map[string]interface{}{
		"evaluations":         c.evals,
		"distinct_nontrivial": len(c.distinct),
		"rule":                c.Rule,
		"samples":             c.samples,
		"inconclusive_cases":  len(c.incon),
	}
	if len(c.samples) == 0 {
		cov["samples"] = []interface{}{}
	}
	keys := make([]string, 0, len(c.counters))
	for k := range c.counters {
		keys = append(keys, k)
	}
	sort.Strings(keys)
	cnt := map[string]int64{}
	for _, k := range keys {
		cnt[k] = c.counters[k]
	}
	cov["monitor_events"] = cnt
	sets := map[string]interface{}{}
	for name, m := range c.sets {
		members := make([]string, 0, len(m))
		for k := range m {
			members = append(members, k)
		}
		sort.Strings(members)
		if len(members) > 40 {
			sets[name] = map[string]interface{}{"count": len(members), "first": members[:40]}
		} else {
			sets[name] = map[string]interface{}{"count": len(members), "members": members}
		}
	}
	cov["observed_sets"] = sets
	if len(c.incon) > 0 {
		n := len(c.incon)
		if n > 10 {
			n = 10
		}
		cov["inconclusive_first"] = c.incon[:n]
	}
	kf := []string{}
	for k, n := range c.knownHit {
		kf = append(kf, fmt.Sprintf("%s x%d", k, n))
	}
	sort.Strings(kf)
	cov["known_findings_hit"] = kf
	for k, v := range c.extra {
		cov[k] = v
	}
	ev := map[string]interface{}{
		"property_id": c.Prop,
		"tier":        c.Tier,
		"seed":        c.Seed,
		"level":       c.Level,
		"coverage":    cov,
		"assumptions": append([]string{}, c.Assume...),
		"wall_s":      time.Since(c.start).Seconds(),
		"violations":  len(c.viol),
	}
	buf, _ := json.MarshalIndent(ev, "", " ")
	os.MkdirAll(filepath.Join(c.Root, "evidence"), 0755)
	if !c.NoEvidence {
		ioutil.WriteFile(filepath.Join(c.Root, "evidence", c.Prop+".json"), buf, 0644)
	}

	if len(c.viol) > 0 {
		fmt.Printf("RESULT property=%s violated (%d distinct violations, %d evaluations)\n", c.Prop, len(c.viol), c.evals)
		return 1
	}
	if c.Only != "" {
		fmt.Printf("RESULT property=%s replay of case %s: no violation reproduced (evaluations=%d)\n", c.Prop, c.Only, c.evals)
		return 0
	}
	if len(c.distinct) < 2 || c.evals == 0 {
		fmt.Printf("INCONCLUSIVE property=%s the monitors observed too little (evaluations=%d distinct=%d inconclusive_cases=%d)\n", c.Prop, c.evals, len(c.distinct), len(c.incon))
		return 3
	}
	fmt.Printf("RESULT property=%s held on everything observed: evaluations=%d distinct_nontrivial=%d inconclusive_cases=%d wall=%.1fs\n",
		c.Prop, c.evals, len(c.distinct), len(c.incon), time.Since(c.start).Seconds())
	return 0
}

func Hex(b []byte) string {
	if len(b) > 8 {
		return hex.EncodeToString(b[:8]) + ".."
	}
	return hex.EncodeToString(b)
}

func HexFull(b []byte) string { return hex.EncodeToString(b) }

// Recover runs f and converts a panic into an error string.
func Recover(f func()) (panicked bool, msg string) {
	defer func() {
		if r := recover(); r != nil {
			panicked = true
			msg = fmt.Sprint(r)
		}
	}()
	f()
	return
}
