// Package ref holds reference models written from the published construction of
// QED's two trees, independent of QED's pruning/visitor/cache/storage code.
package ref

import (
	"crypto/sha256"
	"encoding/binary"
	"math/bits"
)

// H is the hash used by the reference (QED's production hasher is SHA-256).
func H(parts ...[]byte) []byte {
	h := sha256.New()
	for _, p := range parts {
		h.Write(p)
	}
	return h.Sum(nil)
}

func histPos(index uint64, height uint16) []byte {
	b := make([]byte, 10)
	binary.BigEndian.PutUint64(b, index)
	binary.BigEndian.PutUint16(b[8:], height)
	return b
}

// Hist is the position-salted Merkle history tree over an append-only list of event digests.
//
//	leaf(i)            = H(d_i ‖ i₈ ‖ 0₂)
//	inner(i,h) full    = H(left ‖ right ‖ i₈ ‖ h₂)
//	inner(i,h) partial = H(left ‖ i₈ ‖ h₂)           (right subtree has no leaf yet)
//	root of version v  = node(0, bitlen(v)) restricted to leaves 0..v
type Hist struct {
	Digests [][]byte
	frozen  map[[10]byte][]byte // memo of complete subtrees (never change)
	NoMemo  bool                // from-scratch mode (cross-check of the memoised mode)
}

func NewHist() *Hist { return &Hist{frozen: map[[10]byte][]byte{}} }

func (t *Hist) Append(d []byte) uint64 {
	t.Digests = append(t.Digests, append([]byte{}, d...))
	return uint64(len(t.Digests) - 1)
}

func (t *Hist) Len() uint64 { return uint64(len(t.Digests)) }

// Node returns the hash of node (index,height) in the tree of version v. Requires index <= v.
func (t *Hist) Node(index uint64, height uint16, v uint64) []byte {
	pos := histPos(index, height)
	if height == 0 {
		return H(t.Digests[index], pos)
	}
	last := index + (uint64(1) << height) - 1
	complete := last <= v
	var key [10]byte
	if complete && !t.NoMemo {
		copy(key[:], pos)
		if h, ok := t.frozen[key]; ok {
			return h
		}
	}
	rightIdx := index + (uint64(1) << (height - 1))
	left := t.Node(index, height-1, v)
	var out []byte
	if v < rightIdx {
		out = H(left, pos)
	} else {
		out = H(left, t.Node(rightIdx, height-1, v), pos)
	}
	if complete && !t.NoMemo {
		t.frozen[key] = out
	}
	return out
}

// Root returns the history digest of version v (v < Len()).
func (t *Hist) Root(v uint64) []byte {
	return t.Node(0, uint16(bits.Len64(v)), v)
}

// VersionsOf returns every version at which digest d was inserted.
func (t *Hist) VersionsOf(d []byte) []uint64 {
	var out []uint64
	for i, x := range t.Digests {
		if string(x) == string(d) {
			out = append(out, uint64(i))
		}
	}
	return out
}
