package ref

import (
	"encoding/binary"
)

// Hyper is the 256-level sparse Merkle tree mapping a 32-byte digest to the (latest)
// version at which it was inserted.
//
//	empty subtree of height h      : D[h], D[0] = H(0x00 ‖ 0x00), D[h] = H(D[h-1] ‖ D[h-1])
//	heights 256..233               : always expanded
//	height <= 232, exactly one key : shortcut leaf  H(pad32(version) ‖ h₂ ‖ prefix₃₂)
//	otherwise                      : H(right ‖ left ‖ h₂ ‖ prefix₃₂)   (right child first)
//
// Implemented as a persistent (path-copying) binary trie so that the root after every
// insertion costs O(256) hashes and old roots stay valid.
const HyperBits = 256
const HyperShortcutLimit = 232

var hyperDefaults [HyperBits + 1][]byte

func init() {
	hyperDefaults[0] = H([]byte{0}, []byte{0})
	for i := 1; i <= HyperBits; i++ {
		hyperDefaults[i] = H(hyperDefaults[i-1], hyperDefaults[i-1])
	}
}

// HyperDefault returns the hash of an empty subtree of the given height (0..255 are used by QED).
func HyperDefault(h int) []byte { return hyperDefaults[h] }

type hnode struct {
	left, right *hnode
	// leaf (shortcut) fields
	leaf    bool
	key     []byte
	version uint64
	hash    []byte
}

type Hyper struct {
	root *hnode
	N    int
}

func NewHyper() *Hyper { return &Hyper{} }

func hyperPos(height int, key []byte) []byte {
	b := make([]byte, 2+32)
	binary.BigEndian.PutUint16(b, uint16(height))
	// prefix = first (256-height) bits of key, rest zero
	nbits := HyperBits - height
	copy(b[2:], key[:32])
	for bit := nbits; bit < HyperBits; bit++ {
		b[2+bit/8] &^= 1 << uint(7-bit%8)
	}
	return b
}

func pad32(v uint64) []byte {
	b := make([]byte, 32)
	binary.BigEndian.PutUint64(b[24:], v)
	return b
}

func bitAt(key []byte, i int) int { return int(key[i/8]>>(7-uint(i%8))) & 1 }

func hashOf(n *hnode, height int) []byte {
	if n == nil {
		return hyperDefaults[height]
	}
	return n.hash
}

func mkLeaf(key []byte, version uint64, height int) *hnode {
	return &hnode{leaf: true, key: key, version: version, hash: H(pad32(version), hyperPos(height, key))}
}

func mkInner(l, r *hnode, height int, anyKey []byte) *hnode {
	return &hnode{left: l, right: r, hash: H(hashOf(r, height-1), hashOf(l, height-1), hyperPos(height, anyKey))}
}

// insert returns the new subtree at `height` (whose prefix is key's first 256-height bits).
func insert(n *hnode, height int, key []byte, version uint64) *hnode {
	if n == nil {
		if height <= HyperShortcutLimit {
			return mkLeaf(key, version, height)
		}
		// always-expanded zone: build the chain down
		child := insert(nil, height-1, key, version)
		if bitAt(key, HyperBits-height) == 0 {
			return mkInner(child, nil, height, key)
		}
		return mkInner(nil, child, height, key)
	}
	if n.leaf {
		if string(n.key) == string(key) {
			return mkLeaf(key, version, height) // same digest again: latest version wins
		}
		// push the existing shortcut down until the two keys diverge
		if height == 0 {
			panic("ref: two different keys at height 0")
		}
		var l, r *hnode
		ob := bitAt(n.key, HyperBits-height)
		old := mkLeaf(n.key, n.version, height-1)
		if ob == 0 {
			l = old
		} else {
			r = old
		}
		if bitAt(key, HyperBits-height) == 0 {
			l = insert(l, height-1, key, version)
		} else {
			r = insert(r, height-1, key, version)
		}
		return mkInner(l, r, height, key)
	}
	if bitAt(key, HyperBits-height) == 0 {
		return mkInner(insert(n.left, height-1, key, version), n.right, height, key)
	}
	return mkInner(n.left, insert(n.right, height-1, key, version), height, key)
}

// Insert maps key (32 bytes) to version and returns the new root digest.
func (t *Hyper) Insert(key []byte, version uint64) []byte {
	k := append([]byte{}, key...)
	t.root = insert(t.root, HyperBits, k, version)
	t.N++
	return t.Root()
}

func (t *Hyper) Root() []byte { return hashOf(t.root, HyperBits) }

// Lookup returns the version stored for key.
func (t *Hyper) Lookup(key []byte) (uint64, bool) {
	n := t.root
	for h := HyperBits; n != nil; h-- {
		if n.leaf {
			if string(n.key) == string(key) {
				return n.version, true
			}
			return 0, false
		}
		if bitAt(key, HyperBits-h) == 0 {
			n = n.left
		} else {
			n = n.right
		}
	}
	return 0, false
}

// ShortcutHeight returns the height at which key's shortcut leaf sits (key must be present).
func (t *Hyper) ShortcutHeight(key []byte) int {
	n := t.root
	for h := HyperBits; n != nil; h-- {
		if n.leaf {
			return h
		}
		if bitAt(key, HyperBits-h) == 0 {
			n = n.left
		} else {
			n = n.right
		}
	}
	return -1
}

// HyperRootScratch recomputes the root from a plain map by the defining recursion
// (no trie, no memo); used to cross-check the persistent implementation.
func HyperRootScratch(m map[string]uint64) []byte {
	keys := make([][]byte, 0, len(m))
	for k := range m {
		keys = append(keys, []byte(k))
	}
	var rec func(height int, keys [][]byte, prefixOf []byte) []byte
	rec = func(height int, keys [][]byte, prefixOf []byte) []byte {
		if len(keys) == 0 {
			return hyperDefaults[height]
		}
		if height <= HyperShortcutLimit && len(keys) == 1 {
			return H(pad32(m[string(keys[0])]), hyperPos(height, keys[0]))
		}
		var l, r [][]byte
		for _, k := range keys {
			if bitAt(k, HyperBits-height) == 0 {
				l = append(l, k)
			} else {
				r = append(r, k)
			}
		}
		return H(rec(height-1, r, nil), rec(height-1, l, nil), hyperPos(height, keys[0]))
	}
	return rec(HyperBits, keys, nil)
}
