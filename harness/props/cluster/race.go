package cluster

import (
	"bufio"
	"fmt"
	"io/ioutil"
	"os"
	"os/exec"
	"path/filepath"
	"regexp"
	"sort"
	"strings"
	"syscall"
	"time"

	"qedverif/lib"
)

func sortStrings(s []string) { sort.Strings(s) }

// RaceReport is one de-duplicated data race: the two outermost QED frames and the two innermost.
type RaceReport struct {
	Key    string   `json:"key"`
	Stacks []string `json:"stacks"`
	Count  int      `json:"count"`
}

var frameRe = regexp.MustCompile(`^\s+([^\s(]+(?:\([^)]*\))?[^\s(]*)\(`)

// ParseRaceLogs reads every file with the given prefix (GORACE log_path) and returns the distinct
// reports keyed by the pair of innermost QED functions (line numbers stripped).
func ParseRaceLogs(prefix string) []RaceReport {
	files, _ := filepath.Glob(prefix + "*")
	byKey := map[string]*RaceReport{}
	for _, f := range files {
		fh, err := os.Open(f)
		if err != nil {
			continue
		}
		sc := bufio.NewScanner(fh)
		sc.Buffer(make([]byte, 1<<20), 1<<24)
		var block []string
		flush := func() {
			if len(block) == 0 {
				return
			}
			// split the block into access stacks: sections starting with "Read at"/"Write at"/"Previous ..."
			var tops []string
			var cur []string
			inAccess := false
			for _, ln := range block {
				t := strings.TrimSpace(ln)
				if strings.HasPrefix(t, "Read at") || strings.HasPrefix(t, "Write at") || strings.HasPrefix(t, "Previous read at") || strings.HasPrefix(t, "Previous write at") {
					if inAccess && len(cur) > 0 {
						tops = append(tops, firstQedFrame(cur))
					}
					cur = nil
					inAccess = true
					continue
				}
				if strings.HasPrefix(t, "Goroutine ") {
					if inAccess && len(cur) > 0 {
						tops = append(tops, firstQedFrame(cur))
					}
					cur = nil
					inAccess = false
					continue
				}
				if inAccess && strings.HasPrefix(ln, "  ") && !strings.HasPrefix(t, "/") && t != "" {
					if i := strings.LastIndex(t, "("); i > 0 {
						cur = append(cur, t[:i])
					}
				}
			}
			if inAccess && len(cur) > 0 {
				tops = append(tops, firstQedFrame(cur))
			}
			sort.Strings(tops)
			key := strings.Join(tops, " <-> ")
			if r, ok := byKey[key]; ok {
				r.Count++
			} else {
				n := len(block)
				if n > 60 {
					n = 60
				}
				byKey[key] = &RaceReport{Key: key, Stacks: block[:n], Count: 1}
			}
			block = nil
		}
		in := false
		for sc.Scan() {
			ln := sc.Text()
			if strings.Contains(ln, "WARNING: DATA RACE") {
				flush()
				in = true
				continue
			}
			if strings.HasPrefix(ln, "==================") {
				if in && len(block) > 0 {
					flush()
					in = false
				}
				continue
			}
			if in {
				block = append(block, ln)
			}
		}
		flush()
		fh.Close()
	}
	var out []RaceReport
	for _, r := range byKey {
		out = append(out, *r)
	}
	sort.Slice(out, func(i, j int) bool { return out[i].Key < out[j].Key })
	return out
}

// firstQedFrame returns the innermost frame that belongs to QED (or the innermost frame at all).
func firstQedFrame(frames []string) string {
	for _, f := range frames {
		if strings.Contains(f, "github.com/bbva/qed/") {
			return strings.TrimPrefix(f, "github.com/bbva/qed/")
		}
	}
	for _, f := range frames {
		if strings.Contains(f, "qedverif/") {
			return "HARNESS:" + f
		}
	}
	if len(frames) > 0 {
		return frames[0]
	}
	return "?"
}

// runRaceDiag runs worker `name` of the race-instrumented binary `rounds` times and turns data races
// between QED functions into violations of property prop (key = function pair).
func runRaceDiag(c *lib.Ctx, prop, name string, rounds int) {
	bin := os.Getenv("QV_RACE_BIN")
	if bin == "" {
		c.Count("race_runs_skipped(no QV_RACE_BIN)", 1)
		return
	}
	if c.Only != "" {
		return
	}
	for round := 0; round < rounds; round++ {
		dir := c.Dir(fmt.Sprintf("race%d", round))
		logp := filepath.Join(dir, "race.log")
		cmd := exec.Command(bin, "worker", name, dir, fmt.Sprint(c.Seed+int64(round)*1000), c.Tier)
		cmd.Env = append(os.Environ(), fmt.Sprintf("GORACE=halt_on_error=0 log_path=%s history_size=5", logp))
		out, _ := os.Create(filepath.Join(dir, "worker.out"))
		cmd.Stdout, cmd.Stderr = out, out
		done := make(chan error, 1)
		if err := cmd.Start(); err != nil {
			c.Inconclusive("race worker did not start: " + err.Error())
			return
		}
		go func() { done <- cmd.Wait() }()
		var werr error
		select {
		case werr = <-done:
		case <-time.After(8 * time.Minute):
			// ask the Go runtime for all goroutine stacks before killing: goroutines of the code under test
			// parked on a mutex for minutes are a deadlock, not slowness
			cmd.Process.Signal(syscall.SIGQUIT)
			select {
			case <-done:
			case <-time.After(20 * time.Second):
				cmd.Process.Kill()
				<-done
			}
			out.Close()
			dump, _ := ioutil.ReadFile(filepath.Join(dir, "worker.out"))
			if frames := parkedOnLocks(string(dump), 3); len(frames) >= 2 {
				key := fmt.Sprintf("%s:deadlock:%s <-> %s", prop, frames[0], frames[1])
				c.Violation(key, fmt.Sprintf("the concurrent public-API workload stopped making progress: %d goroutines of the code under test have been parked on mutexes for at least 3 minutes (%s)", len(frames), strings.Join(frames, "; ")), map[string]interface{}{"id": name, "goroutine_dump_tail": tailStr(string(dump), 6000)})
			} else {
				c.Inconclusive("race worker watchdog fired")
			}
			continue
		}
		out.Close()
		buf, _ := ioutil.ReadFile(filepath.Join(dir, "worker.out"))
		text := string(buf)
		stats := ""
		for _, ln := range strings.Split(text, "\n") {
			if strings.HasPrefix(ln, "RACE-WORKLOAD ") {
				stats = ln
			}
		}
		if stats == "" {
			c.Inconclusive(fmt.Sprintf("race worker produced no workload summary (exit: %v): %s", werr, tail(text, 400)))
			continue
		}
		c.Count("race_workload_runs", 1)
		c.Seen("race_workloads", stats)
		if strings.Contains(text, "fatal error: concurrent map") {
			c.Violation(prop+":race:fatal-concurrent-map", "the race workload died with a concurrent map access: "+tail(text, 600), map[string]string{"id": "race", "output": tail(text, 3000)})
		}
		for _, rep := range ParseRaceLogs(logp) {
			c.Count("race_reports_raw", int64(rep.Count))
			if strings.Contains(rep.Key, "HARNESS:") {
				c.Seen("race_reports_involving_harness_frames(ignored)", rep.Key)
				continue
			}
			c.Seen("race_reports_distinct", rep.Key)
			c.Violation(prop+":race:"+rep.Key, "data race between public API paths: "+rep.Key, map[string]interface{}{"id": "race", "report": rep})
		}
		c.Case(fmt.Sprintf("race-run/%d", round), true)
	}
}

func tail(s string, n int) string {
	if len(s) > n {
		return s[len(s)-n:]
	}
	return s
}

// runRaceDiagInfo runs a race worker as a diagnostic only: reports go into the evidence, they do not decide.
func runRaceDiagInfo(c *lib.Ctx, name string) {
	bin := os.Getenv("QV_RACE_BIN")
	if bin == "" || c.Only != "" {
		return
	}
	if _, ok := Workers[name]; !ok {
		return
	}
	dir := c.Dir("racediag")
	logp := filepath.Join(dir, "race.log")
	cmd := exec.Command(bin, "worker", name, dir, fmt.Sprint(c.Seed), c.Tier)
	cmd.Env = append(os.Environ(), fmt.Sprintf("GORACE=halt_on_error=0 log_path=%s history_size=5", logp))
	out, _ := os.Create(filepath.Join(dir, "worker.out"))
	cmd.Stdout, cmd.Stderr = out, out
	if err := cmd.Start(); err != nil {
		return
	}
	done := make(chan error, 1)
	go func() { done <- cmd.Wait() }()
	select {
	case <-done:
	case <-time.After(6 * time.Minute):
		cmd.Process.Kill()
	}
	out.Close()
	var keys []string
	for _, rep := range ParseRaceLogs(logp) {
		keys = append(keys, fmt.Sprintf("%s x%d", rep.Key, rep.Count))
	}
	c.Extra("race_diagnostic_reports", keys)
}

// parkedOnLocks reads a Go goroutine dump and returns, for every goroutine that has been waiting on a
// sync.Mutex / sync.RWMutex for at least minMinutes and has a frame of the code under test, the innermost such
// frame (distinct, sorted). The runtime only annotates waits of a minute or more.
func parkedOnLocks(dump string, minMinutes int) []string {
	set := map[string]bool{}
	for _, blk := range strings.Split(dump, "\n\n") {
		lines := strings.Split(strings.TrimSpace(blk), "\n")
		if len(lines) < 2 || !strings.HasPrefix(lines[0], "goroutine ") {
			continue
		}
		h := lines[0]
		if !(strings.Contains(h, "sync.Mutex.Lock") || strings.Contains(h, "sync.RWMutex.RLock") || strings.Contains(h, "sync.RWMutex.Lock") || strings.Contains(h, "semacquire")) {
			continue
		}
		mins := 0
		if i := strings.Index(h, ", "); i >= 0 {
			fmt.Sscanf(h[i+2:], "%d minutes", &mins)
		}
		if mins < minMinutes {
			continue
		}
		for _, ln := range lines[1:] {
			if strings.HasPrefix(ln, "github.com/bbva/qed/") {
				f := strings.TrimPrefix(ln, "github.com/bbva/qed/")
				if i := strings.LastIndex(f, "("); i > 0 {
					f = f[:i]
				}
				set[f] = true
				break
			}
		}
	}
	var out []string
	for f := range set {
		out = append(out, f)
	}
	sort.Strings(out)
	return out
}

func tailStr(s string, n int) string {
	if len(s) > n {
		return s[len(s)-n:]
	}
	return s
}
