package cluster

import (
	"fmt"
	"time"
)

// StartSingle starts a single-node cluster on dir and waits until it leads (used by other packages).
func StartSingle(dir string) (*Node, error) {
	nd, err := StartNode(NodeCfg{ID: "n0", Dir: dir, Port: FreePort(), Bootstrap: true, SnapshotThreshold: 8192, TrailingLogs: 10240})
	if err != nil {
		return nil, err
	}
	deadline := time.Now().Add(20 * time.Second)
	for !nd.IsLeader() && time.Now().Before(deadline) {
		time.Sleep(20 * time.Millisecond)
	}
	if !nd.IsLeader() {
		nd.Close()
		return nil, fmt.Errorf("single node did not become leader")
	}
	return nd, nil
}
