package cluster

import (
	"fmt"
	"time"
)

// StartSingle starts a single-node cluster on dir and waits until it leads (used by other packages).
func StartSingle(dir string) (*Node, error) {
	return StartSingleCfg(NodeCfg{ID: "n0", Dir: dir, Port: FreePort(), Bootstrap: true, SnapshotThreshold: 8192, TrailingLogs: 10240})
}

// StartSingleCfg is StartSingle with an explicit configuration.
func StartSingleCfg(cfg NodeCfg) (*Node, error) {
	if cfg.ID == "" {
		cfg.ID = "n0"
	}
	if cfg.Port == 0 {
		cfg.Port = FreePort()
	}
	cfg.Bootstrap = true
	if cfg.TrailingLogs == 0 {
		cfg.TrailingLogs, cfg.SnapshotThreshold = 10240, 8192
	}
	nd, err := StartNode(cfg)
	if err != nil {
		return nil, err
	}
	deadline := time.Now().Add(20 * time.Second)
	for !nd.IsLeader() && time.Now().Before(deadline) {
		time.Sleep(20 * time.Millisecond)
	}
	if !nd.IsLeader() {
		nd.Close()
		return nil, fmt.Errorf("single node did not become leader")
	}
	return nd, nil
}
