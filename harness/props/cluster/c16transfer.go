package cluster

// C16, backup taken on a node that received its data by state transfer. The node answers every query correctly,
// yet what its backup contains depends on how the transferred batches were written (journal, memtables): the
// restored store must hold exactly the log the node holds at the backup's version.

import (
	"fmt"
	"os"
	"path/filepath"
	"strconv"
	"time"

	"github.com/bbva/qed/balloon"
	"github.com/bbva/qed/rocksdb"
	"github.com/bbva/qed/storage"
	"github.com/bbva/qed/storage/rocks"
	"github.com/hashicorp/raft"

	"qedverif/lib"
)

func runC16Transferred(c *lib.Ctx, id string, seed uint64) {
	r := lib.NewRand(seed)
	fail := func(key, what string) {
		c.Violation("C16:transferred-node:"+key, fmt.Sprintf("case %s: %s", id, what), map[string]interface{}{"id": id, "seed": seed})
	}
	mod := func(cf *NodeCfg) { cf.TrailingLogs = 0; cf.SnapshotThreshold = 1 << 40 }
	lc, err := bringUp(c.Dir(id), 2, mod)
	defer lc.CloseAll()
	if err != nil {
		c.Inconclusive(id + ": cluster start: " + err.Error())
		return
	}
	rl := newReplicaLog()
	load := func(n int) bool {
		for k := 0; k < n; k++ {
			ld := lc.WaitLeader(20 * time.Second)
			if ld == nil {
				return false
			}
			if err := rl.add(ld, id, r.Pick(1, 1, 3, 9), r.Bool()); err != nil {
				if u, ok := err.(*unknownOutcome); ok {
					if _, rerr := rl.resolve(lc, u); rerr != nil {
						return false
					}
					continue
				}
				return false
			}
		}
		return true
	}
	if !load(r.Range(4, 12)) {
		c.Inconclusive(id + ": load")
		return
	}
	for _, nid := range lc.ids(true) {
		nd := lc.Nodes[nid]
		if err := Call(nd, func() error { return nd.N.VerifForceSnapshot() }); err != nil && err != raft.ErrNothingNewToSnapshot {
			c.Inconclusive(id + ": forced snapshot failed: " + err.Error())
			return
		}
	}
	if !load(2) {
		c.Inconclusive(id + ": load after compaction")
		return
	}
	nd, err := lc.Start("n2", false, func(cf *NodeCfg) { mod(cf); cf.Bootstrap = false })
	if err != nil {
		c.Inconclusive(id + ": new node start: " + err.Error())
		return
	}
	if !load(r.Range(2, 5)) || lc.WaitLeader(20*time.Second) == nil || !lc.Quiesce(90*time.Second) {
		c.Inconclusive(id + ": the new node did not converge (C09's subject): " + lc.LastQuiesceState)
		return
	}
	// quiescent: the node holds len(rl.Events) events; back it up and restore the backup
	want := uint64(len(rl.Events))
	if err := Call(nd, func() error { return nd.N.CreateBackup() }); err != nil {
		fail("create-backup", "CreateBackup on a node that was brought up to date by state transfer failed: "+err.Error())
		return
	}
	infos := nd.N.ListBackups()
	if len(infos) != 1 {
		fail("listing", fmt.Sprintf("one backup was taken, %d are listed", len(infos)))
		return
	}
	rec, perr := strconv.ParseUint(infos[0].Metadata, 10, 64)
	if perr != nil || rec+1 != want {
		fail("metadata-version", fmt.Sprintf("the node holds %d events, the backup records version %q", want, infos[0].Metadata))
		return
	}
	backupDir := filepath.Join(nd.Cfg.Dir, "db", "backups")
	dbdir := filepath.Join(c.Dir(id+"-restore"), "db")
	os.MkdirAll(dbdir, 0755)
	bo := rocksdb.NewDefaultOptions()
	be, err := rocksdb.OpenBackupEngine(bo, backupDir)
	if err != nil {
		bo.Destroy()
		c.Inconclusive(id + ": open backup engine: " + err.Error())
		return
	}
	ro := rocksdb.NewRestoreOptions()
	err = be.RestoreDBFromBackup(uint32(infos[0].ID), dbdir, dbdir, ro)
	ro.Destroy()
	be.Close()
	bo.Destroy()
	if err != nil {
		fail("restore-failed", "restoring the backup failed: "+err.Error())
		return
	}
	st, err := rocks.NewRocksDBStore(dbdir, 0)
	if err != nil {
		fail("restore-failed", "the restored store does not open: "+err.Error())
		return
	}
	defer st.Close()
	b, err := balloon.NewBalloon(st, HasherF)
	if err != nil {
		fail("restore-failed", "no balloon can be opened on the restored store: "+err.Error())
		return
	}
	defer b.Close()
	c.Count("backups_of_transferred_nodes_restored", 1)
	if got := b.Version(); got != want {
		fail("content", fmt.Sprintf("the node was transferred a log and holds %d events; its backup records version %d but restores to a log holding %d events", want, rec, got))
		return
	}
	for _, t := range []storage.Table{storage.HistoryTable, storage.HyperTable, storage.HyperCacheTable} {
		live, rest := DumpTable(nd.Raw, t), DumpTable(st, t)
		if live.Hash != rest.Hash {
			fail("content", fmt.Sprintf("table %s of the restored backup differs from the node's at the backup's version: %s", t.String(), FirstDiff(live, rest)))
			return
		}
	}
	c.Case("transferred-node-backup", true)
}
