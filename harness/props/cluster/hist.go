package cluster

import (
	"bytes"
	"fmt"
	"sort"
	"sync"
	"sync/atomic"
	"time"

	"github.com/anishathalye/porcupine"
	"github.com/bbva/qed/balloon"

	"qedverif/lib"
)

// ---------- recorded history (client boundary) ----------

type OpRec struct {
	Client   int      `json:"client"`
	Seq      int      `json:"seq"`
	Kind     string   `json:"kind"` // add | query
	Events   []string `json:"events,omitempty"`
	Node     string   `json:"node"`
	Call     int64    `json:"call"`
	Ret      int64    `json:"ret"` // 0 = never returned / outcome unknown
	OK       bool     `json:"ok"`
	Err      string   `json:"err,omitempty"`
	Versions []uint64 `json:"versions,omitempty"` // acked add: version per event
	// query
	Exists  bool   `json:"exists,omitempty"`
	Actual  uint64 `json:"actual,omitempty"`
	Current uint64 `json:"current,omitempty"`
	// resolution of an add whose outcome was unknown
	Resolved bool `json:"resolved,omitempty"`
}

type History struct {
	mu    sync.Mutex
	Ops   []*OpRec
	clock int64
	t0    time.Time
}

func NewHistory() *History { return &History{t0: time.Now()} }

// Now returns a strictly increasing timestamp from one monotonic source.
func (h *History) Now() int64 {
	t := int64(time.Since(h.t0))
	for {
		old := atomic.LoadInt64(&h.clock)
		if t <= old {
			t = old + 1
		}
		if atomic.CompareAndSwapInt64(&h.clock, old, t) {
			return t
		}
	}
}

func (h *History) Add(op *OpRec) {
	h.mu.Lock()
	h.Ops = append(h.Ops, op)
	h.mu.Unlock()
}

// ---------- safe calls into a node ----------

// Guard lets client calls and Stop exclude each other (calling a RaftNode while it is
// being closed dereferences nil fields: an artefact of in-process driving, not of QED).
type Guard struct{ sync.RWMutex }

var guards sync.Map // *Node -> *Guard

func guardOf(n *Node) *Guard {
	g, _ := guards.LoadOrStore(n, &Guard{})
	return g.(*Guard)
}

// Call runs f against node n unless the node is stopping; panics become errors.
func Call(n *Node, f func() error) (err error) {
	g := guardOf(n)
	g.RLock()
	defer g.RUnlock()
	if n.closed {
		return fmt.Errorf("node closed")
	}
	pan, msg := lib.Recover(func() { err = f() })
	if pan {
		return fmt.Errorf("PANIC: %s", msg)
	}
	return err
}

// StopGuarded waits for in-flight calls and stops the node.
func (c *Cluster) StopGuarded(id string) error {
	n, ok := c.Nodes[id]
	if !ok {
		return nil
	}
	g := guardOf(n)
	g.Lock()
	defer g.Unlock()
	return c.Stop(id)
}

// ---------- dense-sequence checker ----------

type DenseResult struct {
	Accepted   int // events that took effect
	Acked      int
	Unknown    int // add ops whose outcome was unknown
	ResolvedIn int // of those, how many turned out to have been applied
}

// CheckDense decides C05's sequence clauses on a finished history. lookup(event) must give the
// final (exists, version) of an event as the quiescent log reports it; current is the log's final
// CurrentVersion (valid only when at least one event was accepted).
func CheckDense(h *History, lookup func(ev string) (bool, uint64, error), current uint64, report func(key, what string)) DenseResult {
	res := DenseResult{}
	byVersion := map[uint64]string{}
	claim := func(v uint64, ev string, how string) {
		if old, ok := byVersion[v]; ok && old != ev {
			report("C05:version-issued-twice", fmt.Sprintf("version %d was issued for event %q and for event %q (%s)", v, old, ev, how))
			return
		}
		byVersion[v] = ev
	}
	for _, op := range h.Ops {
		if op.Kind != "add" {
			continue
		}
		if op.OK {
			res.Acked += len(op.Events)
			for i, ev := range op.Events {
				if i > 0 && op.Versions[i] != op.Versions[i-1]+1 {
					report("C05:bulk-not-consecutive", fmt.Sprintf("bulk of %d events got versions %v (not consecutive in request order)", len(op.Events), op.Versions))
				}
				claim(op.Versions[i], ev, "acknowledged")
				ex, v, err := lookup(ev)
				if err != nil {
					continue
				}
				if !ex {
					report("C05:acked-event-missing", fmt.Sprintf("event %q acknowledged at version %d is reported absent by the quiescent log", ev, op.Versions[i]))
				} else if v != op.Versions[i] {
					report("C05:acked-version-moved", fmt.Sprintf("event %q was acknowledged at version %d but the log reports it at version %d", ev, op.Versions[i], v))
				}
			}
			continue
		}
		// outcome unknown: resolve every event of the op
		res.Unknown++
		var vs []uint64
		n := 0
		for _, ev := range op.Events {
			ex, v, err := lookup(ev)
			if err == nil && ex {
				n++
				vs = append(vs, v)
				claim(v, ev, "unacknowledged but applied")
			}
		}
		if n != 0 && n != len(op.Events) {
			report("C05:bulk-partially-applied", fmt.Sprintf("unacknowledged bulk %v was applied partially (%d of %d events)", op.Events, n, len(op.Events)))
		}
		if n == len(op.Events) && n > 0 {
			res.ResolvedIn++
			op.Resolved = true
			op.Versions = vs
			for i := 1; i < len(vs); i++ {
				if vs[i] != vs[i-1]+1 {
					report("C05:bulk-not-consecutive", fmt.Sprintf("unacknowledged-but-applied bulk got versions %v", vs))
				}
			}
		}
	}
	res.Accepted = len(byVersion)
	if res.Accepted > 0 {
		if current != uint64(res.Accepted-1) {
			report("C05:current-version", fmt.Sprintf("quiescent log reports current version %d but %d events were accepted", current, res.Accepted))
		}
		for v := uint64(0); v < uint64(res.Accepted); v++ {
			if _, ok := byVersion[v]; !ok {
				report("C05:version-skipped", fmt.Sprintf("no accepted event holds version %d (accepted=%d)", v, res.Accepted))
				break
			}
		}
	}
	return res
}

// ---------- porcupine: counter + membership model ----------

type pcIn struct {
	Add   bool
	K     uint64 // number of events of the add
	First uint64 // version the add got (acked or resolved)
	// query
	Ver     int64 // final version of the queried event, -1 if it never took effect
	Exists  bool
	Actual  uint64
	Current uint64
}

var counterModel = porcupine.Model{
	Init: func() interface{} { return uint64(0) },
	Step: func(state, input, output interface{}) (bool, interface{}) {
		n := state.(uint64)
		in := input.(pcIn)
		if in.Add {
			return in.First == n, n + in.K
		}
		if n == 0 {
			return false, n // queries are only issued after the first acknowledged add
		}
		if in.Current != n-1 {
			return false, n
		}
		should := in.Ver >= 0 && uint64(in.Ver) < n
		if in.Exists != should {
			return false, n
		}
		if in.Exists && in.Actual != uint64(in.Ver) {
			return false, n
		}
		return true, n
	},
	DescribeOperation: func(input, output interface{}) string {
		in := input.(pcIn)
		if in.Add {
			return fmt.Sprintf("add(%d)->%d", in.K, in.First)
		}
		return fmt.Sprintf("query(ver=%d)->(exists=%v,actual=%d,current=%d)", in.Ver, in.Exists, in.Actual, in.Current)
	},
}

// CheckLinearizable runs porcupine over the resolved history. finalVersion gives the final version
// of an event (-1 = never took effect). Returns porcupine's verdict.
func CheckLinearizable(h *History, finalVersion func(ev string) int64, timeout time.Duration) (porcupine.CheckResult, int) {
	var ops []porcupine.Operation
	inf := int64(1) << 62
	for _, op := range h.Ops {
		switch op.Kind {
		case "add":
			if op.OK {
				ops = append(ops, porcupine.Operation{ClientId: op.Client, Input: pcIn{Add: true, K: uint64(len(op.Events)), First: op.Versions[0]}, Call: op.Call, Output: nil, Return: op.Ret})
			} else if op.Resolved {
				// took effect at an unknown instant after its call: stays open to the end
				ops = append(ops, porcupine.Operation{ClientId: 1000 + len(ops), Input: pcIn{Add: true, K: uint64(len(op.Events)), First: op.Versions[0]}, Call: op.Call, Output: nil, Return: inf})
			}
		case "query":
			if op.OK {
				ops = append(ops, porcupine.Operation{ClientId: op.Client, Input: pcIn{Ver: finalVersion(op.Events[0]), Exists: op.Exists, Actual: op.Actual, Current: op.Current}, Call: op.Call, Output: nil, Return: op.Ret})
			}
		}
	}
	sort.SliceStable(ops, func(i, j int) bool { return ops[i].Call < ops[j].Call })
	return porcupine.CheckOperationsTimeout(counterModel, ops, timeout), len(ops)
}

// SnapEventOK checks that a snapshot carries the digest of the event it was issued for.
func SnapEventOK(s *balloon.Snapshot, ev string) bool {
	return bytes.Equal(s.EventDigest, EventDigest([]byte(ev)))
}
