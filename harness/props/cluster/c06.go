package cluster

import (
	"bytes"
	"fmt"
	"io"
	"os"
	"path/filepath"
	"time"

	"github.com/bbva/qed/balloon"
	"github.com/bbva/qed/crypto/hashing"
	"github.com/bbva/qed/storage/rocks"

	"qedverif/lib"
	"qedverif/ref"
)

// replicaLog is what the driver knows about the replicated log: events in version order, the
// snapshots the leader returned, and the reference trees fed the same sequence.
type replicaLog struct {
	Events []string
	Snaps  []*balloon.Snapshot
	RH     *ref.Hist
	RY     *ref.Hyper
	OpEnd  []uint64
}

func newReplicaLog() *replicaLog { return &replicaLog{RH: ref.NewHist(), RY: ref.NewHyper()} }

// add issues one bulk (or single add) through node nd and records the leader's snapshots.
func (rl *replicaLog) add(nd *Node, tag string, k int, single bool) error {
	evs := make([][]byte, k)
	names := make([]string, k)
	for i := range evs {
		names[i] = fmt.Sprintf("%s-%d-%d", tag, len(rl.Events), i)
		evs[i] = []byte(names[i])
	}
	var snaps []*balloon.Snapshot
	err := Call(nd, func() error {
		var e error
		if single && k == 1 {
			var s *balloon.Snapshot
			s, e = nd.N.Add(evs[0])
			snaps = []*balloon.Snapshot{s}
		} else {
			snaps, e = nd.N.AddBulk(evs)
		}
		return e
	})
	if err != nil {
		return &unknownOutcome{names: names, err: err}
	}
	for i, s := range snaps {
		if s.Version != uint64(len(rl.Events)) {
			return fmt.Errorf("VERSION: snapshot %d of the bulk carries version %d, expected %d", i, s.Version, len(rl.Events))
		}
		rl.Events = append(rl.Events, names[i])
		rl.Snaps = append(rl.Snaps, s)
		d := EventDigest(evs[i])
		v := rl.RH.Append(d)
		rl.RY.Insert(d, v)
	}
	end := uint64(len(rl.Events) - 1)
	for range snaps {
		rl.OpEnd = append(rl.OpEnd, end)
	}
	return nil
}

// unknownOutcome is returned by add when the call failed: the entry may or may not have been committed.
type unknownOutcome struct {
	names []string
	err   error
}

func (u *unknownOutcome) Error() string { return "unknown outcome: " + u.err.Error() }

// resolve decides whether an add with unknown outcome took effect (after a Barrier on the current
// leader, presence is final) and, if so, appends its events with snapshots derived from the reference
// trees (the acknowledgement carrying the real ones was lost).
func (rl *replicaLog) resolve(lc *lockedCluster, u *unknownOutcome) (applied bool, err error) {
	ld := lc.WaitLeader(30 * time.Second)
	if ld == nil {
		return false, fmt.Errorf("no leader")
	}
	var mp *balloon.MembershipProof
	err = Call(ld, func() error {
		if e := ld.N.VerifRaft().Barrier(10 * time.Second).Error(); e != nil {
			return e
		}
		var e error
		mp, e = ld.N.QueryMembership([]byte(u.names[0]))
		return e
	})
	if err != nil {
		return false, err
	}
	if !mp.Exists {
		return false, nil
	}
	if mp.ActualVersion != uint64(len(rl.Events)) {
		return true, fmt.Errorf("VERSION: unacknowledged bulk was applied at version %d, expected %d", mp.ActualVersion, len(rl.Events))
	}
	first := len(rl.Events)
	for _, nm := range u.names {
		d := EventDigest([]byte(nm))
		v := rl.RH.Append(d)
		rl.RY.Insert(d, v)
		rl.Events = append(rl.Events, nm)
	}
	hy := rl.RY.Root()
	end := uint64(len(rl.Events) - 1)
	for i, nm := range u.names {
		v := uint64(first + i)
		rl.Snaps = append(rl.Snaps, &balloon.Snapshot{EventDigest: EventDigest([]byte(nm)), HistoryDigest: rl.RH.Root(v), HyperDigest: hy, Version: v})
		rl.OpEnd = append(rl.OpEnd, end)
	}
	return true, nil
}

// checkAgainstReference compares leader-issued snapshots [from, len) with the reference trees.
func (rl *replicaLog) checkAgainstReference(from int, hyperNow bool, fail func(key, what string)) {
	for v := from; v < len(rl.Snaps); v++ {
		s := rl.Snaps[v]
		if !bytes.Equal(s.HistoryDigest, rl.RH.Root(uint64(v))) {
			fail("history-digest-vs-reference", fmt.Sprintf("history digest of version %d issued by the leader differs from the reference tree", v))
			return
		}
	}
	if hyperNow && len(rl.Snaps) > 0 {
		if !bytes.Equal(rl.Snaps[len(rl.Snaps)-1].HyperDigest, rl.RY.Root()) {
			fail("hyper-digest-vs-reference", fmt.Sprintf("hyper digest issued with version %d differs from the reference sparse tree", len(rl.Snaps)-1))
		}
	}
}

// checkReplicas is the quiescent-point oracle shared by C06/C09: equal versions, equal table dumps,
// cache invariant, and sampled proofs of every replica verified against the leader's snapshots.
func checkReplicas(c *lib.Ctx, lc *lockedCluster, rl *replicaLog, r *lib.Rand, samples int, fail func(key, what string)) {
	ids := lc.ids(true)
	if len(ids) == 0 || len(rl.Events) == 0 {
		return
	}
	cur := uint64(len(rl.Events) - 1)
	dumps := map[string]map[string]TableDump{}
	for _, id := range ids {
		nd := lc.Nodes[id]
		if v := nd.Version(); v != cur+1 {
			fail("replica-version", fmt.Sprintf("replica %s holds %d events at a quiescent point, the leader acknowledged %d", id, v, cur+1))
		}
		dumps[id] = map[string]TableDump{}
		for _, t := range Tables {
			dumps[id][t.String()] = DumpTable(nd.Raw, t)
		}
		eq, err := nd.N.VerifBalloon().VerifHyperCacheEqual()
		if err != nil || !eq {
			fail("hyper-cache-invariant", fmt.Sprintf("replica %s: in-memory hyper cache differs from a rebuild from its store (%v)", id, err))
		}
		c.Count("cache_invariant_checks", 1)
	}
	// crash image: what a replica would find on disk if it were killed right now (a file copy of its live
	// database directory, opened as a store) must hold everything it has applied
	{
		id := ids[r.Intn(len(ids))]
		nd := lc.Nodes[id]
		img := filepath.Join(lc.Dir, fmt.Sprintf("crashimg-%s-%d", id, r.Uint64()%100000))
		if err := copyDir(filepath.Join(nd.Cfg.Dir, "db"), img); err == nil {
			os.Remove(filepath.Join(img, "LOCK"))
			if st, err := rocks.NewRocksDBStore(img, 0); err == nil {
				for _, t := range Tables {
					d := DumpTable(st, t)
					if d.Hash != dumps[id][t.String()].Hash {
						fail("crash-image:"+t.String(), fmt.Sprintf("replica %s: table %s in a copy of its on-disk files (what survives a kill) differs from its live state: %s", id, t, FirstDiff(dumps[id][t.String()], d)))
					}
				}
				st.Close()
				c.Count("crash_images_checked", 1)
			} else {
				c.Count("crash_images_unopenable", 1)
			}
		}
		os.RemoveAll(img)
	}
	for _, id := range ids[1:] {
		for _, t := range Tables {
			a, b := dumps[ids[0]][t.String()], dumps[id][t.String()]
			c.Count("table_dumps_compared", 1)
			if a.Hash != b.Hash {
				fail("table-dump:"+t.String(), fmt.Sprintf("table %s differs between replicas %s and %s at a quiescent point: %s", t, ids[0], id, FirstDiff(a, b)))
			}
		}
	}
	n := len(rl.Events)
	for s := 0; s < samples; s++ {
		v := uint64(r.Intn(n))
		q := v + uint64(r.Intn(n-int(v)))
		ev := rl.Events[v]
		i, j := uint64(r.Intn(n)), uint64(r.Intn(n))
		if i > j {
			i, j = j, i
		}
		for _, id := range ids {
			nd := lc.Nodes[id]
			var mp *balloon.MembershipProof
			err := Call(nd, func() (e error) { mp, e = nd.N.QueryMembershipConsistency([]byte(ev), q); return })
			c.Count("replica_proofs_checked", 1)
			if err != nil {
				fail("replica-membership-query", fmt.Sprintf("replica %s: membership query (event@%d, version %d) failed: %v", id, v, q, err))
				continue
			}
			snap := &balloon.Snapshot{HistoryDigest: rl.Snaps[q].HistoryDigest, HyperDigest: rl.Snaps[cur].HyperDigest, Version: q}
			var ok bool
			pan, msg := lib.Recover(func() { ok = mp.DigestVerify(hashing.Digest(EventDigest([]byte(ev))), snap) })
			if pan || !ok || !mp.Exists || mp.ActualVersion != v || mp.CurrentVersion != cur {
				fail("replica-membership-proof", fmt.Sprintf("replica %s: membership proof for event@%d at version %d does not verify against the leader's snapshots (exists=%v actual=%d current=%d, leader current=%d) %s", id, v, q, mp.Exists, mp.ActualVersion, mp.CurrentVersion, cur, msg))
			}
			var ip *balloon.IncrementalProof
			err = Call(nd, func() (e error) { ip, e = nd.N.QueryConsistency(i, j); return })
			c.Count("replica_proofs_checked", 1)
			if err != nil {
				fail("replica-consistency-query", fmt.Sprintf("replica %s: consistency query (%d,%d) failed: %v", id, i, j, err))
				continue
			}
			pan, msg = lib.Recover(func() { ok = ip.Verify(rl.Snaps[i], rl.Snaps[j]) })
			if pan || !ok {
				fail("replica-consistency-proof", fmt.Sprintf("replica %s: consistency proof (%d,%d) does not verify against the leader's snapshots %s", id, i, j, msg))
			}
		}
	}
}

type c06plan struct {
	ID     string   `json:"id"`
	Phases []string `json:"phases"`
	Seed   uint64   `json:"seed"`
}

func RunC06(c *lib.Ctx) {
	c.Rule = "case = one 3-node cluster run through a seeded plan of phases (follower-down-then-catch-up, follower-restart, leader-transfer, leader-restart, plain load); adds go through the current leader (single and bulk); at each quiescent point (raft Barrier on the leader + every live node at the leader's index and version) the monitor compares replica versions, sha256 dumps of all four tables pairwise, the hyper-cache invariant on every replica, sampled membership/consistency proofs from every replica against the snapshots the leader returned, and those snapshots against the reference trees; non-trivial = >= 2 replicas compared with >= 10 events; distinct by phase plan."
	c.Assume = []string{"faults are injected between client operations, so every acknowledged snapshot is known", "clean stops (crashes are C07, compaction/state transfer is C09)"}
	kinds := []string{"load", "follower-down-catchup", "follower-restart", "leader-transfer", "leader-restart"}
	nplans := c.Q(4, 30)
	r0 := c.Rand("plans")
	plans := make([]c06plan, nplans)
	for i := range plans {
		r := lib.NewRand(r0.Uint64())
		p := c06plan{ID: fmt.Sprintf("p%d", i), Seed: r.Uint64()}
		np := c.Q(3, 6)
		for k := 0; k < np; k++ {
			p.Phases = append(p.Phases, kinds[(i+k*2+r.Intn(2))%len(kinds)])
		}
		plans[i] = p
	}
	parallelN(nplans, 2, func(pi int) {
		p := plans[pi]
		if c.Only != "" && c.Only != p.ID {
			return
		}
		verdict := "inconclusive"
		for attempt := 0; attempt < 3 && verdict == "inconclusive"; attempt++ {
			verdict = runC06Plan(c, p, attempt)
		}
		if verdict == "inconclusive" {
			c.Inconclusive(fmt.Sprintf("plan %s did not complete in 3 attempts", p.ID))
		}
		if pi < 3 {
			c.Sample(p)
		}
	})
	runRaceDiagInfo(c, "c10-race-cluster")
}

func runC06Plan(c *lib.Ctx, p c06plan, attempt int) string {
	r := lib.NewRand(p.Seed)
	lc, err := bringUp(c.Dir(fmt.Sprintf("%s-a%d", p.ID, attempt)), 3, nil)
	defer lc.CloseAll()
	if err != nil {
		return "inconclusive"
	}
	rl := newReplicaLog()
	fail := func(key, what string) {
		c.Violation("C06:"+key, fmt.Sprintf("plan %s %v: %s", p.ID, p.Phases, what), map[string]interface{}{"id": p.ID, "plan": p})
	}
	load := func(n int) bool {
		for k := 0; k < n; k++ {
			ld := lc.WaitLeader(20 * time.Second)
			if ld == nil {
				return false
			}
			size := r.Pick(1, 1, 2, 5, 13, 40)
			if err := rl.add(ld, p.ID, size, r.Bool()); err != nil {
				if len(err.Error()) > 8 && err.Error()[:8] == "VERSION:" {
					fail("version-sequence", err.Error())
					return false
				}
				u, ok := err.(*unknownOutcome)
				if !ok {
					return false
				}
				// not leader any more / leadership lost / timeout: the entry may still have been committed
				applied, rerr := rl.resolve(lc, u)
				if rerr != nil {
					if len(rerr.Error()) > 8 && rerr.Error()[:8] == "VERSION:" {
						fail("version-sequence", rerr.Error())
					}
					return false
				}
				c.Count("adds_with_unknown_outcome", 1)
				if applied {
					c.Count("unknown_outcome_applied", 1)
				}
				continue
			}
		}
		return true
	}
	checked := 0
	for pi, ph := range p.Phases {
		if !load(r.Range(4, 10)) {
			return "inconclusive"
		}
		switch ph {
		case "follower-down-catchup", "follower-restart":
			ld := lc.leader()
			var victim string
			for _, id := range lc.ids(true) {
				if ld == nil || id != ld.Cfg.ID {
					victim = id
				}
			}
			if victim == "" {
				return "inconclusive"
			}
			lc.StopGuarded(victim)
			if ph == "follower-down-catchup" {
				if !load(r.Range(5, 15)) {
					return "inconclusive"
				}
			}
			if _, err := lc.Start(victim, false, func(cf *NodeCfg) { cf.Bootstrap = false }); err != nil {
				return "inconclusive"
			}
		case "leader-transfer":
			if ld := lc.leader(); ld != nil {
				Call(ld, func() error { return ld.N.VerifLeaveLeadership() })
			}
		case "leader-restart":
			ld := lc.leader()
			if ld == nil {
				return "inconclusive"
			}
			id := ld.Cfg.ID
			lc.StopGuarded(id)
			if lc.WaitLeader(20*time.Second) == nil {
				return "inconclusive"
			}
			if !load(r.Range(3, 8)) {
				return "inconclusive"
			}
			if _, err := lc.Start(id, false, func(cf *NodeCfg) { cf.Bootstrap = false }); err != nil {
				return "inconclusive"
			}
		}
		if !load(r.Range(2, 6)) {
			return "inconclusive"
		}
		if lc.WaitLeader(20*time.Second) == nil {
			return "inconclusive"
		}
		if !lc.Quiesce(60 * time.Second) {
			// raft indexes equal but versions differ for a whole minute = replicas diverged
			c.Count("quiesce_watchdog_fired", 1)
			c.Seen("quiesce_watchdog_states", lc.LastQuiesceState)
			return "inconclusive"
		}
		rl.checkAgainstReference(0, true, func(k, w string) { fail(k, w) })
		checkReplicas(c, lc, rl, r, c.Q(6, 20), fail)
		checked++
		c.Count("quiescent_points_checked", 1)
		c.Seen("phases", ph)
		_ = pi
	}
	c.Case(fmt.Sprintf("%v", p.Phases), len(rl.Events) >= 10 && checked > 0)
	c.Count("events_replicated", int64(len(rl.Events)))
	return "held"
}

// copyDir copies the regular files of src (no sub-directories: the backups directory is skipped) to dst.
func copyDir(src, dst string) error {
	if err := os.MkdirAll(dst, 0755); err != nil {
		return err
	}
	ents, err := os.ReadDir(src)
	if err != nil {
		return err
	}
	for _, e := range ents {
		if e.IsDir() {
			continue
		}
		in, err := os.Open(filepath.Join(src, e.Name()))
		if err != nil {
			return err
		}
		out, err := os.Create(filepath.Join(dst, e.Name()))
		if err != nil {
			in.Close()
			return err
		}
		_, err = io.Copy(out, in)
		in.Close()
		out.Close()
		if err != nil {
			return err
		}
	}
	return nil
}
