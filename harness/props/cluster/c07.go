package cluster

import (
	"bufio"
	"bytes"
	"encoding/hex"
	"fmt"
	"io/ioutil"
	"os"
	"os/exec"
	"path/filepath"
	"strconv"
	"strings"
	"syscall"
	"time"

	"github.com/bbva/qed/balloon"
	"github.com/bbva/qed/crypto/hashing"
	"github.com/bbva/qed/storage"

	"qedverif/lib"
	"qedverif/props/hostile"
	"qedverif/ref"
)

func init() {
	Workers["c07-run"] = c07Worker
}

// workload W: entry i (1-based) has sizes[i-1] unique events; fully determined by (seed, n).
func c07Workload(seed uint64, n int) (sizes []int, events [][]string) {
	r := lib.NewRand(seed)
	for i := 1; i <= n; i++ {
		k := r.Pick(1, 1, 1, 2, 3, 8, 17)
		if i == 1 {
			k = 1 // boundary: after the first entry the persisted state says "version 0"
		}
		if i == n/2 {
			k = 300 // one large bulk: well over a thousand mutations in one apply
			if n >= 30 {
				k = 1200 // thorough: more than 1000 hyper-cache tiles to reload when the node comes back
			}
		}
		sizes = append(sizes, k)
		evs := make([]string, k)
		for j := range evs {
			evs[j] = fmt.Sprintf("w%x-e%d-%d", seed&0xffff, i, j)
		}
		events = append(events, evs)
	}
	return
}

// c07Worker: args dir port seed nEntries killOrdinal killPhase(before|after|none)
// Opens the node on dir (fresh or after a crash), observes the versions it serves while it recovers,
// decides which prefix of W is present, checks that state against the reference and the recorded
// acknowledgements, then continues W (with the kill plan armed: ordinal counts store writes of THIS run).
func c07Worker(args []string) int {
	dir := args[0]
	port, _ := strconv.Atoi(args[1])
	seed, _ := strconv.ParseUint(args[2], 10, 64)
	n, _ := strconv.Atoi(args[3])
	killAt, _ := strconv.ParseInt(args[4], 10, 64)
	phase := args[5]
	sizes, events := c07Workload(seed, n)
	prefix := []uint64{0}
	for _, k := range sizes {
		prefix = append(prefix, prefix[len(prefix)-1]+uint64(k))
	}
	isPrefix := func(v uint64) int {
		for m, p := range prefix {
			if p == v {
				return m
			}
		}
		return -1
	}
	viol := func(key, what string) { fmt.Printf("C07-VIOLATION %s | %s\n", key, what) }

	hook := func(ord int64, ph string, _ []*storage.Mutation) {
		if phase != "none" && ord == killAt && ph == phase {
			fmt.Printf("C07-KILLING-SELF ordinal=%d phase=%s\n", ord, ph)
			syscall.Kill(os.Getpid(), syscall.SIGKILL)
			time.Sleep(10 * time.Second)
		}
	}
	nd, err := StartNode(NodeCfg{ID: "n0", Dir: dir, Port: port, Bootstrap: true, SnapshotThreshold: 8192, TrailingLogs: 10240, Hook: hook})
	if err != nil {
		fmt.Printf("C07-ERROR start: %v\n", err)
		return 4
	}
	if phase == "fail" {
		nd.Store.mu.Lock()
		nd.Store.FailAt = killAt
		nd.Store.mu.Unlock()
	}
	// versions served while recovering: each must be a prefix boundary of W
	seen := map[uint64]bool{}
	stableSince := time.Now()
	last := uint64(1<<63 - 1)
	deadline := time.Now().Add(40 * time.Second)
	for time.Now().Before(deadline) {
		v := nd.Version()
		if !seen[v] {
			seen[v] = true
			fmt.Printf("C07-VSEEN %d\n", v)
			if isPrefix(v) < 0 {
				viol("recovering-state-not-a-prefix", fmt.Sprintf("while recovering the node served version %d, which is not the size of any prefix of the committed entries %v", v, prefix))
			}
		}
		if v != last {
			last, stableSince = v, time.Now()
		}
		if nd.IsLeader() && time.Since(stableSince) > 400*time.Millisecond {
			var berr error
			lib.Recover(func() { berr = nd.N.VerifRaft().Barrier(5 * time.Second).Error() })
			if berr == nil && nd.Version() == v {
				break
			}
		}
		time.Sleep(5 * time.Millisecond)
	}
	if !nd.IsLeader() {
		fmt.Println("C07-INCONCLUSIVE no leadership after restart")
		return 3
	}
	v0 := nd.Version()
	m := isPrefix(v0)
	fmt.Printf("C07-RECOVERED version=%d entries=%d\n", v0, m)
	if m < 0 {
		viol("recovered-state-not-a-prefix", fmt.Sprintf("after recovery the node holds %d events, not the size of any prefix of the committed entries %v", v0, prefix))
		return 5
	}
	// acknowledgements recorded by earlier runs
	acked := 0
	type ack struct {
		hist [][]byte
		hyp  []byte
	}
	acks := map[int]ack{}
	if f, err := os.Open(filepath.Join(dir, "acks.log")); err == nil {
		sc := bufio.NewScanner(f)
		sc.Buffer(make([]byte, 1<<20), 1<<22)
		for sc.Scan() {
			fs := strings.Fields(sc.Text())
			if len(fs) >= 4 && fs[0] == "ACK" {
				i, _ := strconv.Atoi(fs[1])
				var a ack
				for _, h := range strings.Split(fs[2], ",") {
					b, _ := hex.DecodeString(h)
					a.hist = append(a.hist, b)
				}
				a.hyp, _ = hex.DecodeString(fs[3])
				acks[i] = a
				if i > acked {
					acked = i
				}
			}
		}
		f.Close()
	}
	if m < acked {
		viol("acknowledged-entry-lost", fmt.Sprintf("entries up to %d were acknowledged before the crash but the recovered node only holds %d", acked, m))
	}
	// reference over the present prefix
	rh, ry := ref.NewHist(), ref.NewHyper()
	var hypAt []([]byte) // reference hyper root after each entry
	hypAt = append(hypAt, nil)
	for i := 1; i <= m; i++ {
		for _, ev := range events[i-1] {
			d := EventDigest([]byte(ev))
			v := rh.Append(d)
			ry.Insert(d, v)
		}
		hypAt = append(hypAt, append([]byte{}, ry.Root()...))
	}
	cur := v0 - 1
	// every event of the prefix is present exactly where it belongs and proves against the
	// acknowledged snapshots (where an acknowledgement exists) and the reference otherwise
	for i := 1; i <= m; i++ {
		for j, ev := range events[i-1] {
			ver := prefix[i-1] + uint64(j)
			var mp *balloon.MembershipProof
			var qerr error
			pan, msg := lib.Recover(func() { mp, qerr = nd.N.QueryMembershipConsistency([]byte(ev), ver) })
			if pan || qerr != nil {
				viol("query-after-recovery", fmt.Sprintf("membership query for entry %d event %d (version %d) failed after recovery: %v %s", i, j, ver, qerr, msg))
				continue
			}
			hd := rh.Root(ver)
			if a, ok := acks[i]; ok && j < len(a.hist) {
				if !bytes.Equal(a.hist[j], hd) {
					viol("acked-snapshot-differs-from-reference", fmt.Sprintf("snapshot acknowledged for version %d differs from the reference", ver))
				}
				hd = a.hist[j]
			}
			snap := &balloon.Snapshot{HistoryDigest: hd, HyperDigest: hypAt[m], Version: ver}
			ok := false
			pan, msg = lib.Recover(func() { ok = mp.DigestVerify(hashing.Digest(EventDigest([]byte(ev))), snap) })
			if !ok || mp.ActualVersion != ver || mp.CurrentVersion != cur {
				viol("proof-after-recovery", fmt.Sprintf("entry %d event %d: proof after recovery does not verify against the snapshot acknowledged before the crash / the reference (actual=%d want %d, current=%d want %d) %s", i, j, mp.ActualVersion, ver, mp.CurrentVersion, cur, msg))
			}
		}
	}
	// events of entries beyond the prefix must be absent (applied at most once, and in order)
	for i := m + 1; i <= n; i++ {
		var mp *balloon.MembershipProof
		var qerr error
		if m == 0 {
			break // empty log: queries are not meaningful
		}
		lib.Recover(func() { mp, qerr = nd.N.QueryMembership([]byte(events[i-1][0])) })
		if qerr == nil && mp != nil && mp.Exists {
			viol("entry-beyond-prefix-present", fmt.Sprintf("entry %d is present although the node holds only the first %d entries", i, m))
		}
	}
	eq, cerr := nd.N.VerifBalloon().VerifHyperCacheEqual()
	if cerr != nil || !eq {
		viol("hyper-cache-after-recovery", fmt.Sprintf("in-memory hyper cache after recovery differs from a rebuild from the store (%v)", cerr))
	}
	// continue W from entry m+1 (kill plan armed)
	af, _ := os.OpenFile(filepath.Join(dir, "acks.log"), os.O_APPEND|os.O_CREATE|os.O_WRONLY, 0644)
	for i := m + 1; i <= n; i++ {
		raw := make([][]byte, len(events[i-1]))
		for j, ev := range events[i-1] {
			raw[j] = []byte(ev)
		}
		fmt.Fprintf(af, "CALL %d\n", i)
		seq0 := nd.Raw.LastWALSequenceNumber()
		var snaps []*balloon.Snapshot
		var err error
		if len(raw) == 1 && i%2 == 0 {
			var s *balloon.Snapshot
			s, err = nd.N.Add(raw[0])
			snaps = []*balloon.Snapshot{s}
		} else {
			snaps, err = nd.N.AddBulk(raw)
		}
		if err != nil && phase == "fail" {
			// the store refused this insertion's write; a node that survives this must not have consumed versions
			fmt.Printf("C07-STOREFAULT-SURVIVED entry %d: %v\n", i, err)
			failed := i
			_ = failed
			// the same entry is proposed again (a client would retry): it must get the versions it would have got
			if len(raw) == 1 && i%2 == 0 {
				var s *balloon.Snapshot
				s, err = nd.N.Add(raw[0])
				snaps = []*balloon.Snapshot{s}
			} else {
				snaps, err = nd.N.AddBulk(raw)
			}
		}
		if err != nil {
			fmt.Printf("C07-ERROR add entry %d: %v\n", i, err)
			return 4
		}
		// the storage write of one insertion must be ONE atomic batch (the crash-point enumeration at the store
		// seam is only complete if nothing can be cut inside it): count the WAL batches this entry produced
		cw := &countingWriter{}
		if ferr := nd.Raw.FetchSnapshot(cw, seq0, nd.Raw.LastWALSequenceNumber(), func([]byte) (bool, error) { return true, nil }); ferr == nil && cw.n != 1 {
			viol("insertion-not-one-atomic-write", fmt.Sprintf("entry %d (%d events) reached the store in %d separate write batches: a crash between them leaves a state that is no prefix of the committed entries", i, len(raw), cw.n))
		}
		var hs []string
		for j, s := range snaps {
			d := EventDigest(raw[j])
			v := rh.Append(d)
			ry.Insert(d, v)
			hs = append(hs, hex.EncodeToString(s.HistoryDigest))
			if s.Version != v || !bytes.Equal(s.HistoryDigest, rh.Root(v)) {
				viol("snapshot-after-recovery-differs", fmt.Sprintf("entry %d: snapshot carries version %d / a history digest that differ from a node that never crashed (expected version %d)", i, s.Version, v))
			}
		}
		if !bytes.Equal(snaps[len(snaps)-1].HyperDigest, ry.Root()) {
			viol("hyper-after-recovery-differs", fmt.Sprintf("entry %d: hyper digest differs from a node that never crashed", i))
		}
		fmt.Fprintf(af, "ACK %d %s %s\n", i, strings.Join(hs, ","), hex.EncodeToString(snaps[len(snaps)-1].HyperDigest))
	}
	af.Close()
	// final dumps (history/hyper/hypercache must equal a never-crashed twin's)
	for _, t := range []storage.Table{storage.HyperTable, storage.HyperCacheTable, storage.HistoryTable} {
		d := DumpTable(nd.Raw, t)
		fmt.Printf("C07-DUMP %s %s %d\n", t, d.Hash, d.Count)
	}
	fmt.Printf("C07-FINAL version=%d mutates=%d\n", nd.Version(), nd.Store.Mutates())
	nd.Close()
	fmt.Println("C07-DONE")
	return 0
}

type c07point struct {
	ID     string `json:"id"`
	Seed   uint64 `json:"workload_seed"`
	N      int    `json:"entries"`
	Kind   string `json:"kind"` // enumerated | timed | double
	KillAt int64  `json:"kill_at_store_write"`
	Phase  string `json:"phase"`
	Delay  int    `json:"timed_kill_after_ms,omitempty"`
}

type c07run struct {
	out    string
	killed bool
	code   int
}

func c07Spawn(c *lib.Ctx, dir string, port int, seed uint64, n int, killAt int64, phase string, timedKillMs int, tag string) c07run {
	bin := os.Getenv("QV_BIN")
	if bin == "" {
		bin, _ = os.Executable()
	}
	outp := filepath.Join(dir, tag+".out")
	out, _ := os.Create(outp)
	cmd := exec.Command(bin, "worker", "c07-run", filepath.Join(dir, "node"), fmt.Sprint(port), fmt.Sprint(seed), fmt.Sprint(n), fmt.Sprint(killAt), phase)
	cmd.Stdout, cmd.Stderr = out, out
	ioutil.WriteFile(filepath.Join(dir, tag+".cmd"), []byte(strings.Join(cmd.Args, " ")+"\n"), 0644)
	if err := cmd.Start(); err != nil {
		return c07run{code: -2}
	}
	done := make(chan error, 1)
	go func() { done <- cmd.Wait() }()
	var werr error
	var timer <-chan time.Time
	if timedKillMs > 0 {
		timer = time.After(time.Duration(timedKillMs) * time.Millisecond)
	}
	watchdog := time.After(4 * time.Minute)
	res := c07run{}
loop:
	for {
		select {
		case werr = <-done:
			break loop
		case <-timer:
			cmd.Process.Signal(syscall.SIGKILL)
			timer = nil
		case <-watchdog:
			cmd.Process.Signal(syscall.SIGKILL)
			<-done
			res.code = -3
			break loop
		}
	}
	out.Close()
	buf, _ := ioutil.ReadFile(outp)
	res.out = string(buf)
	if werr != nil {
		if ee, ok := werr.(*exec.ExitError); ok {
			if ws, ok := ee.Sys().(syscall.WaitStatus); ok && ws.Signaled() && ws.Signal() == syscall.SIGKILL {
				res.killed = true
			} else if res.code == 0 {
				res.code = ee.ExitCode()
			}
		}
	}
	return res
}

func RunC07(c *lib.Ctx) {
	c.Level = "fault_enumeration"
	c.Rule = "case = one crash point of a fixed single-node workload W (mix of single and bulk insertions through raft): ENUMERATED - for every store write k of W and phase in {before, after} a child node SIGKILLs itself inside the store wrapper at exactly that point (every point listed; exhaustive over W); TIMED - external SIGKILL at seeded delays; DOUBLE - a second kill while the restarted node replays. A fresh child then reopens the same directories: every version it serves while recovering must be the size of a prefix of W, the recovered state must hold a prefix containing every acknowledged entry, every present event must prove against the snapshot acknowledged before the crash (else the reference), events beyond the prefix must be absent, the hyper cache must equal a rebuild, the remaining entries must yield reference-equal snapshots, and the final history/hyper/hyper-cache tables must equal those of a twin that never crashed; non-trivial = the child really died at the planned point and a recovery ran; distinct by (kind, k, phase)."
	c.Assume = []string{"crash = SIGKILL of the process (page cache survives; no torn writes, no power loss)", "RocksDB applies a WriteBatch atomically", "single-node cluster: committed order = workload order"}
	n := c.Q(12, 40)
	wseed := c.Rand("workload").Uint64()
	sizes, _ := c07Workload(wseed, n)
	var points []c07point
	for k := 1; k <= n; k++ {
		for _, ph := range []string{"before", "after"} {
			points = append(points, c07point{ID: fmt.Sprintf("k%d-%s", k, ph), Seed: wseed, N: n, Kind: "enumerated", KillAt: int64(k), Phase: ph})
		}
	}
	for _, k := range []int64{1, int64(n / 2), int64(n)} {
		points = append(points, c07point{ID: fmt.Sprintf("storefail-k%d", k), Seed: wseed, N: n, Kind: "storefail", KillAt: k, Phase: "fail"})
	}
	r := c.Rand("timed")
	for t := 0; t < c.Q(8, 80); t++ {
		points = append(points, c07point{ID: fmt.Sprintf("timed%d", t), Seed: wseed, N: n, Kind: "timed", Phase: "none", Delay: r.Range(300, 2500)})
	}
	for t := 0; t < c.Q(3, 30); t++ {
		points = append(points, c07point{ID: fmt.Sprintf("double%d", t), Seed: wseed, N: n, Kind: "double", KillAt: int64(r.Range(2, n)), Phase: []string{"before", "after"}[r.Intn(2)], Delay: r.Range(150, 900)})
	}
	// the twin that never crashes
	twinDir := c.Dir("twin")
	twin := c07Spawn(c, twinDir, FreePort(), wseed, n, 0, "none", 0, "twin")
	twinDumps := dumpLines(twin.out)
	if !strings.Contains(twin.out, "C07-DONE") || len(twinDumps) != 3 {
		c.Inconclusive("the never-crashed twin did not complete: " + tail(twin.out, 300))
		return
	}
	c.Extra("workload_entry_sizes", sizes)
	parallelN(len(points), 5, func(i int) {
		pt := points[i]
		if c.Only != "" && c.Only != pt.ID {
			return
		}
		dir := c.Dir(pt.ID)
		port := FreePort()
		fail := func(key, what string, outs ...string) {
			c.Violation("C07:"+key, fmt.Sprintf("crash point %s (%s, store write %d %s, delay %d ms): %s", pt.ID, pt.Kind, pt.KillAt, pt.Phase, pt.Delay, what), map[string]interface{}{"id": pt.ID, "point": pt, "output": outs})
		}
		// run 1: dies
		var r1 c07run
		switch pt.Kind {
		case "enumerated", "double", "storefail":
			r1 = c07Spawn(c, dir, port, pt.Seed, pt.N, pt.KillAt, pt.Phase, 0, "run1")
		case "timed":
			r1 = c07Spawn(c, dir, port, pt.Seed, pt.N, 0, "none", pt.Delay, "run1")
		}
		if strings.Contains(r1.out, "C07-VIOLATION") {
			fail(violKey(r1.out), "before the crash: "+violLine(r1.out), tail(r1.out, 2000))
			return
		}
		if !r1.killed {
			if pt.Kind == "timed" && strings.Contains(r1.out, "C07-DONE") {
				c.Count("timed_kill_arrived_after_completion", 1)
			} else if pt.Kind == "storefail" && (strings.Contains(r1.out, "panic:") || strings.Contains(r1.out, "C07-DONE")) {
				// a store write error either stops the node (it must then recover like after a crash) or is survived
				if strings.Contains(r1.out, "C07-DONE") {
					c.Count("store_faults_survived_by_the_node", 1)
				} else {
					c.Count("store_faults_that_stopped_the_node", 1)
				}
			} else {
				c.Inconclusive(fmt.Sprintf("%s: first run did not die as planned (code %d): %s", pt.ID, r1.code, tail(r1.out, 200)))
				return
			}
		}
		c.Count("crashes_injected", 1)
		// optional second crash during recovery
		if pt.Kind == "double" {
			r2 := c07Spawn(c, dir, port, pt.Seed, pt.N, 0, "none", pt.Delay, "run2")
			if strings.Contains(r2.out, "C07-VIOLATION") {
				fail(violKey(r2.out), "during the second start: "+violLine(r2.out), tail(r2.out, 2000))
				return
			}
			if r2.killed {
				c.Count("second_crashes_injected", 1)
			}
		}
		// recovery run
		rr := c07Spawn(c, dir, port, pt.Seed, pt.N, 0, "none", 0, "recover")
		switch {
		case strings.Contains(rr.out, "C07-VIOLATION"):
			for _, ln := range strings.Split(rr.out, "\n") {
				if strings.HasPrefix(ln, "C07-VIOLATION") {
					fail(violKey(ln), violLine(ln), tail(rr.out, 2500))
				}
			}
			return
		case strings.Contains(rr.out, "panic:") || strings.Contains(rr.out, "fatal error:") || strings.Contains(rr.out, "Assertion"):
			fail("recovery-crashed", "the restarted node crashed: "+firstLine(rr.out, "panic:", "fatal error:", "Assertion"), tail(rr.out, 2500))
			return
		case rr.code == 3 || rr.code == 4 || rr.code == -3:
			c.Inconclusive(fmt.Sprintf("%s: recovery run inconclusive (code %d): %s", pt.ID, rr.code, tail(rr.out, 200)))
			return
		case !strings.Contains(rr.out, "C07-DONE"):
			fail("recovery-did-not-complete", fmt.Sprintf("the restarted node exited with status %d before completing", rr.code), tail(rr.out, 2500))
			return
		}
		d := dumpLines(rr.out)
		for t, h := range twinDumps {
			if d[t] != h {
				fail("tables-differ-from-never-crashed-twin", fmt.Sprintf("table %s of the recovered node differs from the twin that never crashed", t), tail(rr.out, 1500))
			}
		}
		for _, ln := range strings.Split(rr.out, "\n") {
			if strings.HasPrefix(ln, "C07-RECOVERED") {
				c.Seen("recovered_states", strings.TrimPrefix(ln, "C07-RECOVERED "))
			}
			if strings.HasPrefix(ln, "C07-VSEEN") {
				c.Count("versions_observed_while_recovering", 1)
			}
		}
		c.Count("recoveries_checked", 1)
		c.Case(fmt.Sprintf("%s/k%d/%s", pt.Kind, pt.KillAt, pt.Phase), true)
		if i < 3 {
			c.Sample(pt)
		}
	})
	c.Extra("enumerated_part_covers_every_store_write_of_W", true)
	// 3-process clusters: a follower or the leader is SIGKILLed under load and comes back
	hostile.RunClusterKills(c, c.Q(3, 18))
}

func dumpLines(out string) map[string]string {
	m := map[string]string{}
	for _, ln := range strings.Split(out, "\n") {
		fs := strings.Fields(ln)
		if len(fs) >= 3 && fs[0] == "C07-DUMP" {
			m[fs[1]] = fs[2]
		}
	}
	return m
}

func violLine(out string) string {
	for _, ln := range strings.Split(out, "\n") {
		if strings.Contains(ln, "C07-VIOLATION") {
			if i := strings.Index(ln, "|"); i >= 0 {
				return strings.TrimSpace(ln[i+1:])
			}
			return ln
		}
	}
	return ""
}

func violKey(out string) string {
	for _, ln := range strings.Split(out, "\n") {
		if strings.Contains(ln, "C07-VIOLATION") {
			fs := strings.Fields(ln[strings.Index(ln, "C07-VIOLATION"):])
			if len(fs) > 1 {
				return fs[1]
			}
		}
	}
	return "unknown"
}

// countingWriter counts the chunks (one per write batch) a WAL fetch produces.
type countingWriter struct{ n int }

func (c *countingWriter) Write(p []byte) (int, error) { c.n++; return len(p), nil }
func (c *countingWriter) Close() error                { return nil }
