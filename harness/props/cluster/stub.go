package cluster

import "qedverif/lib"

// Workers are child-process entry points (qv worker <name> args...).
var Workers = map[string]func(args []string) int{}

func RunC07(c *lib.Ctx) { c.Inconclusive("C07: check not built yet") }

func RunC09(c *lib.Ctx) { c.Inconclusive("C09: check not built yet") }

func RunC16(c *lib.Ctx) { c.Inconclusive("C16: check not built yet") }
