package cluster

import (
	"fmt"
	"sync"
	"sync/atomic"
	"time"

	"github.com/anishathalye/porcupine"
	"github.com/bbva/qed/balloon"

	"qedverif/lib"
)

type scenario struct {
	ID      string   `json:"id"`
	Nodes   int      `json:"nodes"`
	Clients int      `json:"clients"`
	Ops     int      `json:"ops_per_client"`
	Faults  []string `json:"faults"`
	Seed    uint64   `json:"seed"`
}

// lockedCluster adds a mutex for concurrent use by clients and the fault injector.
type lockedCluster struct {
	*Cluster
	mu sync.Mutex
}

func (lc *lockedCluster) leader() *Node {
	lc.mu.Lock()
	defer lc.mu.Unlock()
	return lc.Leader()
}

func (lc *lockedCluster) ids(live bool) []string {
	lc.mu.Lock()
	defer lc.mu.Unlock()
	var out []string
	for _, id := range lc.Order {
		if _, ok := lc.Nodes[id]; ok == live {
			out = append(out, id)
		}
	}
	return out
}

// bringUp starts an n-node cluster (n0 bootstraps, the others join) and waits until it is quiet.
func bringUp(dir string, n int, mod func(*NodeCfg)) (*lockedCluster, error) {
	lc := &lockedCluster{Cluster: NewCluster(dir)}
	if _, err := lc.Start("n0", true, mod); err != nil {
		return lc, err
	}
	if lc.WaitLeader(15*time.Second) == nil {
		return lc, fmt.Errorf("no leader after bootstrap")
	}
	for i := 1; i < n; i++ {
		id := fmt.Sprintf("n%d", i)
		if _, err := lc.Start(id, false, mod); err != nil {
			return lc, fmt.Errorf("join %s: %v", id, err)
		}
	}
	if !lc.Quiesce(30 * time.Second) {
		return lc, fmt.Errorf("cluster did not become quiet after start")
	}
	return lc, nil
}

// runClients drives nclients concurrent clients issuing unique adds (single and bulk) and
// queries against the current leader, recording the history at the client boundary.
func runClients(lc *lockedCluster, h *History, sc scenario, withQueries bool, stop *int32) {
	var wg sync.WaitGroup
	var ackedMu sync.Mutex
	var acked []string
	for ci := 0; ci < sc.Clients; ci++ {
		wg.Add(1)
		go func(ci int) {
			defer wg.Done()
			r := lib.NewRand(sc.Seed ^ uint64(ci+1)*0x9e3779b97f4a7c15)
			seq := 0
			idle := 0
			for done := 0; done < sc.Ops && atomic.LoadInt32(stop) == 0; {
				ld := lc.leader()
				if ld == nil {
					idle++
					if idle > 1500 { // ~30 s without any leader
						return
					}
					time.Sleep(20 * time.Millisecond)
					continue
				}
				idle = 0
				seq++
				kind := r.Intn(10)
				ackedMu.Lock()
				na := len(acked)
				ackedMu.Unlock()
				if withQueries && kind >= 8 && na > 0 {
					ackedMu.Lock()
					ev := acked[r.Intn(len(acked))]
					ackedMu.Unlock()
					if r.Intn(4) == 0 {
						ev = fmt.Sprintf("never-added-%d-%d", ci, seq)
					}
					op := &OpRec{Client: ci, Seq: seq, Kind: "query", Events: []string{ev}, Node: ld.Cfg.ID}
					var proof *balloon.MembershipProof
					op.Call = h.Now()
					err := Call(ld, func() error {
						var e error
						proof, e = ld.N.QueryMembership([]byte(ev))
						return e
					})
					op.Ret = h.Now()
					if err == nil {
						op.OK, op.Exists, op.Actual, op.Current = true, proof.Exists, proof.ActualVersion, proof.CurrentVersion
					} else {
						op.Err = err.Error()
					}
					h.Add(op)
					done++
					continue
				}
				k := 1
				if kind >= 5 {
					k = r.Range(2, 20)
				}
				evs := make([]string, k)
				raw := make([][]byte, k)
				for i := range evs {
					evs[i] = fmt.Sprintf("%s-c%d-%d-%d", sc.ID, ci, seq, i)
					raw[i] = []byte(evs[i])
				}
				op := &OpRec{Client: ci, Seq: seq, Kind: "add", Events: evs, Node: ld.Cfg.ID}
				var snaps []*balloon.Snapshot
				op.Call = h.Now()
				err := Call(ld, func() error {
					var e error
					if k == 1 && kind < 3 {
						var s *balloon.Snapshot
						s, e = ld.N.Add(raw[0])
						snaps = []*balloon.Snapshot{s}
					} else {
						snaps, e = ld.N.AddBulk(raw)
					}
					return e
				})
				t := h.Now()
				if err == nil && len(snaps) == k {
					op.OK, op.Ret = true, t
					for i, s := range snaps {
						op.Versions = append(op.Versions, s.Version)
						if !SnapEventOK(s, evs[i]) {
							op.Err = fmt.Sprintf("snapshot %d carries the digest of another event", i)
						}
					}
					ackedMu.Lock()
					acked = append(acked, evs...)
					ackedMu.Unlock()
				} else {
					op.Err = fmt.Sprint(err)
				}
				h.Add(op)
				done++
			}
		}(ci)
	}
	wg.Wait()
}

// injectFaults runs the scenario's fault plan while clients are working.
func injectFaults(lc *lockedCluster, sc scenario, note func(string)) {
	r := lib.NewRand(sc.Seed ^ 0xfa17)
	for _, f := range sc.Faults {
		time.Sleep(time.Duration(150+r.Intn(400)) * time.Millisecond)
		switch f {
		case "follower-restart", "leader-restart", "single-restart":
			var victim string
			ld := lc.leader()
			for _, id := range lc.ids(true) {
				isL := ld != nil && ld.Cfg.ID == id
				if (f == "follower-restart" && !isL) || (f != "follower-restart" && isL) {
					victim = id
					break
				}
			}
			if victim == "" {
				note(f + ":no-victim")
				continue
			}
			lc.mu.Lock()
			err := lc.StopGuarded(victim)
			lc.mu.Unlock()
			note(fmt.Sprintf("%s:stopped:%s:%v", f, victim, err))
			time.Sleep(time.Duration(100+r.Intn(700)) * time.Millisecond)
			lc.mu.Lock()
			_, err = lc.Start(victim, false, func(c *NodeCfg) { c.Bootstrap = false })
			lc.mu.Unlock()
			note(fmt.Sprintf("%s:restarted:%s:%v", f, victim, err))
		case "leader-transfer":
			if ld := lc.leader(); ld != nil {
				err := Call(ld, func() error { return ld.N.VerifLeaveLeadership() })
				note(fmt.Sprintf("leader-transfer:%s:%v", ld.Cfg.ID, err == nil))
			}
		}
	}
}

func RunC05(c *lib.Ctx) {
	c.Rule = "case = one scenario: a real 1- or 3-node raft cluster (in-process RaftNodes over RocksDB), 2-8 concurrent clients issuing unique single/bulk adds (and membership queries in scenarios without leader changes) through the leader, while a seeded fault plan stops/restarts followers, the leader or the single node and transfers leadership; the client-boundary history (call/return from one monotonic clock; adds with unknown outcome stay open and are resolved by membership queries at quiescence) is decided by (1) a dense-sequence checker (no version twice, none skipped, bulks consecutive in request order, snapshot carries its event's digest, acked versions never move, current = accepted-1 on every replica) and (2) porcupine against a counter model; non-trivial = >= 10 acknowledged adds; distinct by (nodes, clients, fault plan)."
	c.Assume = []string{"events are unique per scenario, so a version identifies its write", "in-process clean stops (SIGKILL is C07)", "queries are checked for linearizability only in scenarios without leadership changes (reads are served from local state by design)"}
	plans := []scenario{}
	r0 := c.Rand("scenarios")
	faultSets := [][]string{
		{}, {"follower-restart"}, {"leader-transfer"}, {"leader-restart"}, {"follower-restart", "leader-transfer"},
		{"leader-transfer", "leader-transfer"}, {"leader-restart", "follower-restart"}, {"leader-transfer", "leader-restart", "follower-restart"},
	}
	n := c.Q(6, 40)
	for i := 0; i < n; i++ {
		sc := scenario{ID: fmt.Sprintf("s%d", i), Seed: r0.Uint64()}
		if i%3 == 0 {
			sc.Nodes = 1
			sc.Faults = [][]string{{}, {"single-restart"}, {"single-restart", "single-restart"}}[(i/3)%3]
		} else {
			sc.Nodes = 3
			sc.Faults = faultSets[(i+i/3)%len(faultSets)]
		}
		sc.Clients = []int{2, 4, 8, 3}[i%4]
		sc.Ops = c.Q(30, 60)
		plans = append(plans, sc)
	}
	parallelN(len(plans), 3, func(i int) {
		sc := plans[i]
		if c.Only != "" && c.Only != sc.ID {
			return
		}
		var verdict string
		for attempt := 0; attempt < 3; attempt++ {
			verdict = runC05Scenario(c, sc, attempt)
			if verdict != "inconclusive" {
				break
			}
		}
		if verdict == "inconclusive" {
			c.Inconclusive(fmt.Sprintf("scenario %s did not complete in 3 attempts", sc.ID))
		}
		if i < 3 {
			c.Sample(sc)
		}
	})
}

func parallelN(n, w int, f func(i int)) {
	var wg sync.WaitGroup
	ch := make(chan int)
	for k := 0; k < w; k++ {
		wg.Add(1)
		go func() {
			defer wg.Done()
			for i := range ch {
				f(i)
			}
		}()
	}
	for i := 0; i < n; i++ {
		ch <- i
	}
	close(ch)
	wg.Wait()
}

func runC05Scenario(c *lib.Ctx, sc scenario, attempt int) string {
	dir := c.Dir(fmt.Sprintf("%s-a%d", sc.ID, attempt))
	lc, err := bringUp(dir, sc.Nodes, nil)
	defer lc.CloseAll()
	if err != nil {
		return "inconclusive"
	}
	h := NewHistory()
	var stop int32
	leaderChanges := false
	for _, f := range sc.Faults {
		if f != "follower-restart" {
			leaderChanges = true
		}
	}
	var notes []string
	var nmu sync.Mutex
	fdone := make(chan struct{})
	go func() {
		injectFaults(lc, sc, func(s string) {
			nmu.Lock()
			notes = append(notes, s)
			nmu.Unlock()
			c.Seen("fault_events", s[:minInt(len(s), 28)])
		})
		close(fdone)
	}()
	cdone := make(chan struct{})
	go func() { runClients(lc, h, sc, !leaderChanges, &stop); close(cdone) }()
	select {
	case <-cdone:
	case <-time.After(150 * time.Second):
		atomic.StoreInt32(&stop, 1)
		<-cdone
		<-fdone
		return "inconclusive"
	}
	<-fdone
	// bring everything back, wait for quiet
	for _, id := range lc.ids(false) {
		lc.mu.Lock()
		_, err := lc.Start(id, false, func(cf *NodeCfg) { cf.Bootstrap = false })
		lc.mu.Unlock()
		if err != nil {
			return "inconclusive"
		}
	}
	if lc.WaitLeader(30*time.Second) == nil || !lc.Quiesce(60*time.Second) {
		return "inconclusive"
	}
	ld := lc.leader()
	if ld == nil {
		return "inconclusive"
	}
	fail := func(key, what string) {
		c.Violation(key, fmt.Sprintf("scenario %s (nodes=%d clients=%d faults=%v): %s", sc.ID, sc.Nodes, sc.Clients, sc.Faults, what), map[string]interface{}{"id": sc.ID, "scenario": sc, "fault_log": notes, "history": tailOps(h.Ops, 60)})
	}
	// snapshot/event binding recorded by clients
	acks := 0
	for _, op := range h.Ops {
		if op.Kind == "add" && op.OK {
			acks += len(op.Events)
			if op.Err != "" {
				fail("C05:snapshot-event-digest", op.Err)
			}
		}
		if op.Err != "" && len(op.Err) > 5 && op.Err[:5] == "PANIC" {
			if op.Kind == "add" {
				fail("C05:add-panic", fmt.Sprintf("add call panicked inside the node: %s", op.Err))
			} else {
				// an internal failure of a query racing an insertion is C10's clause, not C05's
				c.Count("query_internal_failures_seen(C10)", 1)
			}
		}
	}
	final := map[string]int64{}
	var current uint64
	lookup := func(ev string) (bool, uint64, error) {
		if v, ok := final[ev]; ok {
			return v >= 0, uint64(v), nil
		}
		var p *balloon.MembershipProof
		err := Call(ld, func() error {
			var e error
			p, e = ld.N.QueryMembership([]byte(ev))
			return e
		})
		if err != nil {
			return false, 0, err
		}
		current = p.CurrentVersion
		if p.Exists {
			final[ev] = int64(p.ActualVersion)
		} else {
			final[ev] = -1
		}
		return p.Exists, p.ActualVersion, nil
	}
	if acks == 0 {
		return "inconclusive"
	}
	// make sure `current` is set
	for _, op := range h.Ops {
		if op.Kind == "add" && op.OK {
			lookup(op.Events[0])
			break
		}
	}
	res := CheckDense(h, lookup, current, fail)
	// every replica reports the same current version at quiescence
	for _, id := range lc.ids(true) {
		nd := lc.Nodes[id]
		if v := nd.Version(); v != uint64(res.Accepted) {
			fail("C05:replica-version", fmt.Sprintf("replica %s holds %d events at quiescence, %d were accepted", id, v, res.Accepted))
		}
	}
	pres, nops := CheckLinearizable(h, func(ev string) int64 {
		if v, ok := final[ev]; ok {
			return v
		}
		ex, v, err := lookup(ev)
		if err != nil || !ex {
			return -1
		}
		return int64(v)
	}, 60*time.Second)
	switch pres {
	case porcupine.Illegal:
		fail("C05:not-linearizable", "the recorded history of adds/queries is not linearizable against the counter model (version order contradicts real-time order or density)")
	case porcupine.Unknown:
		c.Count("porcupine_timeouts", 1)
	}
	c.Count("acknowledged_adds", int64(res.Acked))
	c.Count("accepted_events", int64(res.Accepted))
	c.Count("ops_with_unknown_outcome", int64(res.Unknown))
	c.Count("unknown_resolved_applied", int64(res.ResolvedIn))
	c.Count("porcupine_ops_checked", int64(nops))
	c.Count("history_ops", int64(len(h.Ops)))
	c.Case(fmt.Sprintf("n%d/c%d/%v", sc.Nodes, sc.Clients, sc.Faults), res.Acked >= 10)
	return "held"
}

func tailOps(ops []*OpRec, n int) []*OpRec {
	if len(ops) > n {
		return ops[len(ops)-n:]
	}
	return ops
}

func minInt(a, b int) int {
	if a < b {
		return a
	}
	return b
}
