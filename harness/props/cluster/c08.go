package cluster

import (
	"bytes"
	"fmt"
	"io/ioutil"
	"os"
	"os/exec"
	"path/filepath"
	"runtime"
	"strconv"
	"strings"
	"sync"
	"sync/atomic"
	"time"

	"github.com/bbva/qed/balloon"
	"github.com/bbva/qed/crypto/hashing"

	"qedverif/lib"
	"qedverif/props/tree"
	"qedverif/ref"
)

func init() {
	Workers["c08-life"] = c08LifeWorker
}

type c08case struct {
	ID      string `json:"id"`
	Backend string `json:"backend"`
	N       int    `json:"events"`
	Stops   []int  `json:"stop_after_events"`
	MaxBulk int    `json:"max_bulk,omitempty"`
}

// c08Balloon: balloon-level stop/restart at the given stop points; every later snapshot and sampled
// proofs are compared with the reference (== an uninterrupted twin, by C04).
func c08Balloon(c *lib.Ctx, cs c08case, seed uint64) {
	r := lib.NewRand(seed)
	be := tree.Backend(cs.Backend)
	l, err := tree.NewLog(be, c.Dir(cs.ID))
	if err != nil {
		c.Inconclusive(err.Error())
		return
	}
	defer l.Close()
	fail := func(key, what string) {
		c.Violation("C08:"+key+":"+cs.Backend, fmt.Sprintf("case %s (%s, stops after %v events): %s", cs.ID, cs.Backend, cs.Stops, what), cs)
	}
	ds := tree.GenDigests(r, tree.Families[int(seed%5)], cs.N)
	stop := map[int]bool{}
	for _, s := range cs.Stops {
		stop[s] = true
	}
	reopen := func(at int) bool {
		var rerr error
		pan, msg := lib.Recover(func() { rerr = l.Reopen() })
		c.Count("reopens", 1)
		if pan || rerr != nil {
			fail("reopen-failed", fmt.Sprintf("reopening after %d events failed: %v %s", at, rerr, msg))
			return false
		}
		if uint64(at) != l.B.Version() {
			fail("version-after-reopen", fmt.Sprintf("reopened after %d events, balloon reports %d", at, l.B.Version()))
			return false
		}
		if be == tree.Rocks {
			eq, err := l.B.VerifHyperCacheEqual()
			if err != nil || !eq {
				fail("cache-after-reopen", fmt.Sprintf("hyper cache after reopening at %d differs from rebuild: %v", at, err))
			}
		}
		// proofs for pre-stop events right after reopen
		for k := 0; k < 3 && at > 0; k++ {
			v := uint64(r.Intn(at))
			q := v + uint64(r.Intn(at-int(v)))
			var mp *balloon.MembershipProof
			var qerr error
			pan, msg := lib.Recover(func() { mp, qerr = l.B.QueryDigestMembershipConsistency(hashing.Digest(ds[v]), q) })
			if pan || qerr != nil {
				fail("query-after-reopen", fmt.Sprintf("after reopening at %d: membership query (event@%d, version %d) failed: %v %s", at, v, q, qerr, msg))
				return false
			}
			snap := &balloon.Snapshot{HistoryDigest: l.Snaps[q].HistoryDigest, HyperDigest: l.Snaps[at-1].HyperDigest, Version: q}
			if !mp.DigestVerify(hashing.Digest(ds[v]), snap) {
				fail("proof-after-reopen", fmt.Sprintf("after reopening at %d: proof for event@%d at version %d does not verify against the snapshots issued before the stop", at, v, q))
				return false
			}
			c.Count("proofs_after_reopen", 1)
		}
		return true
	}
	if stop[0] && !reopen(0) {
		return
	}
	for v := 0; v < cs.N; {
		k := 1
		if r.Intn(3) == 0 {
			k = r.Range(1, 5)
		}
		if cs.MaxBulk > 0 {
			k = r.Range(cs.MaxBulk/2, cs.MaxBulk)
		}
		for k > 1 && !noStopInside(stop, v, k) {
			k--
		}
		if v+k > cs.N {
			k = cs.N - v
		}
		var aerr error
		pan, msg := lib.Recover(func() { _, aerr = l.Apply(ds[v:v+k], k > 1) })
		if pan || aerr != nil {
			fail("insert-after-reopen", fmt.Sprintf("insertion at version %d failed: %v %s", v, aerr, msg))
			return
		}
		for i := 0; i < k; i++ {
			s := l.Snaps[v+i]
			if s.Version != uint64(v+i) || !bytes.Equal(s.HistoryDigest, l.RH.Root(uint64(v+i))) || (i == k-1 && !bytes.Equal(s.HyperDigest, l.RY.Root())) {
				fail("snapshot-differs", fmt.Sprintf("snapshot of version %d differs from what an uninterrupted node issues (version %d)", v+i, s.Version))
				return
			}
			c.Count("snapshots_compared", 1)
		}
		v += k
		if stop[v] && !reopen(v) {
			return
		}
	}
	c.Case(fmt.Sprintf("balloon/%s/n%d/stops%d", cs.Backend, cs.N, len(cs.Stops)), true)
}

func noStopInside(stop map[int]bool, v, k int) bool {
	for x := v + 1; x < v+k; x++ {
		if stop[x] {
			return false
		}
	}
	return true
}

func countFDs() int {
	ents, err := ioutil.ReadDir("/proc/self/fd")
	if err != nil {
		return -1
	}
	return len(ents)
}

func fdTargets() string {
	ents, _ := ioutil.ReadDir("/proc/self/fd")
	var out []string
	for _, e := range ents {
		t, err := os.Readlink("/proc/self/fd/" + e.Name())
		if err == nil {
			out = append(out, t)
		}
	}
	return strings.Join(out, " | ")
}

// c08LifeWorker: args: dir, events-per-cycle, cycles, seed. Opens a RaftNode, inserts, checks against
// the reference, closes cleanly; repeats on the same data. Prints LIFE lines; exit 0 when all was well.
func c08LifeWorker(args []string) int {
	dir := args[0]
	per, _ := strconv.Atoi(args[1])
	cycles, _ := strconv.Atoi(args[2])
	withSnapshot := len(args) > 3 && args[3] == "snap" // take a raft snapshot in the middle of each cycle's insertions
	if len(args) > 3 && args[3] == "load" {
		return c08LifeLoadWorker(dir, cycles)
	}
	rh, ry := ref.NewHist(), ref.NewHyper()
	total := 0
	port := FreePort()
	fdBase := countFDs()
	for cy := 0; cy < cycles; cy++ {
		nd, err := StartNode(NodeCfg{ID: "n0", Dir: dir, Port: port, Bootstrap: true, SnapshotThreshold: 8192, TrailingLogs: 10240})
		if err != nil {
			fmt.Printf("LIFE-ERROR cycle=%d start: %v\n", cy, err)
			return 4
		}
		deadline := time.Now().Add(20 * time.Second)
		for !nd.IsLeader() && time.Now().Before(deadline) {
			time.Sleep(20 * time.Millisecond)
		}
		if !nd.IsLeader() {
			fmt.Printf("LIFE-INCONCLUSIVE cycle=%d no leadership\n", cy)
			return 3
		}
		if v := nd.Version(); v != uint64(total) {
			// log replay may still be running right after start: wait for it
			for time.Now().Before(deadline) && nd.Version() != uint64(total) {
				time.Sleep(20 * time.Millisecond)
			}
			if v = nd.Version(); v != uint64(total) {
				fmt.Printf("LIFE-VIOLATION version-after-restart cycle=%d version=%d expected=%d\n", cy, v, total)
				return 5
			}
		}
		n := per
		if cy == 0 && per == 0 {
			n = 0
		}
		for i := 0; i < n; {
			k := 1 + (i+cy)%3
			if i+k > n {
				k = n - i
			}
			evs := make([][]byte, k)
			for j := range evs {
				evs[j] = []byte(fmt.Sprintf("life-%d-%d", total+j, cy))
			}
			snaps, err := nd.N.AddBulk(evs)
			if err != nil {
				fmt.Printf("LIFE-ERROR cycle=%d add: %v\n", cy, err)
				return 4
			}
			for j, s := range snaps {
				d := EventDigest(evs[j])
				v := rh.Append(d)
				ry.Insert(d, v)
				if s.Version != v || !bytes.Equal(s.HistoryDigest, rh.Root(v)) {
					fmt.Printf("LIFE-VIOLATION snapshot-differs cycle=%d version=%d got=%d\n", cy, v, s.Version)
					return 5
				}
			}
			if !bytes.Equal(snaps[len(snaps)-1].HyperDigest, ry.Root()) {
				fmt.Printf("LIFE-VIOLATION hyper-differs cycle=%d version=%d\n", cy, total+k-1)
				return 5
			}
			total += k
			i += k
			if withSnapshot && i >= n/2 && i-k < n/2 {
				if err := nd.N.VerifForceSnapshot(); err != nil {
					fmt.Printf("LIFE-INFO cycle=%d forced snapshot: %v\n", cy, err)
				} else {
					fmt.Printf("LIFE-INFO cycle=%d raft snapshot taken after %d events\n", cy, total)
				}
			}
		}
		if total > 0 {
			ev := []byte(fmt.Sprintf("life-%d-%d", 0, 0))
			if _, err := nd.N.QueryMembership(ev); err != nil {
				fmt.Printf("LIFE-VIOLATION query-after-restart cycle=%d: %v\n", cy, err)
				return 5
			}
		}
		if err := nd.Close(); err != nil {
			fmt.Printf("LIFE-VIOLATION close-error cycle=%d: %v\n", cy, err)
			return 5
		}
		runtime.GC()
		time.Sleep(150 * time.Millisecond)
		fmt.Printf("LIFE cycle=%d events=%d fds=%d (before first open %d) goroutines=%d\n", cy, total, countFDs(), fdBase, runtime.NumGoroutine())
		fmt.Printf("LIFE-FDS cycle=%d %s\n", cy, fdTargets())
	}
	fmt.Println("LIFE-DONE")
	return 0
}

// c08LifeLoadWorker: the node is stopped (Close(true)) while writers are inserting. The stop must not take
// the process down, and after the restart every acknowledged event must sit at its acknowledged version and
// the version must lie between the acknowledged and the submitted number of events.
func c08LifeLoadWorker(dir string, cycles int) int {
	port := FreePort()
	type ack struct {
		ev string
		v  uint64
	}
	var mu sync.Mutex
	var acks []ack
	var submitted int64
	for cy := 0; cy < cycles; cy++ {
		nd, err := StartNode(NodeCfg{ID: "n0", Dir: dir, Port: port, Bootstrap: true, SnapshotThreshold: 8192, TrailingLogs: 10240})
		if err != nil {
			fmt.Printf("LIFE-ERROR cycle=%d start: %v\n", cy, err)
			return 4
		}
		deadline := time.Now().Add(30 * time.Second)
		for !nd.IsLeader() && time.Now().Before(deadline) {
			time.Sleep(20 * time.Millisecond)
		}
		if !nd.IsLeader() {
			fmt.Printf("LIFE-INCONCLUSIVE cycle=%d no leadership\n", cy)
			return 3
		}
		mu.Lock()
		nack := len(acks)
		sample := append([]ack{}, acks...)
		mu.Unlock()
		// log replay may still be running right after start: wait until the version stands still
		last := nd.Version()
		for still := 0; still < 5 && time.Now().Before(deadline); {
			time.Sleep(40 * time.Millisecond)
			if v := nd.Version(); v == last {
				still++
			} else {
				last, still = v, 0
			}
		}
		if v := nd.Version(); v < uint64(nack) || v > uint64(atomic.LoadInt64(&submitted)) {
			fmt.Printf("LIFE-VIOLATION version-after-stop-under-load cycle=%d version=%d acknowledged=%d submitted=%d\n", cy, v, nack, atomic.LoadInt64(&submitted))
			return 5
		}
		for i := 0; i < len(sample); i += 1 + len(sample)/40 {
			a := sample[i]
			var exists bool
			var actual uint64
			err := Call(nd, func() error {
				p, e := nd.N.QueryMembership([]byte(a.ev))
				if e == nil {
					exists, actual = p.Exists, p.ActualVersion
				}
				return e
			})
			if err != nil || !exists || actual != a.v {
				fmt.Printf("LIFE-VIOLATION acknowledged-event-after-stop-under-load cycle=%d event=%s acknowledged_version=%d exists=%v actual=%d err=%v\n", cy, a.ev, a.v, exists, actual, err)
				return 5
			}
		}
		atomic.StoreInt64(&submitted, int64(nd.Version())) // what is in the log now counts as submitted and settled
		// writers
		stop, closing := int32(0), int32(0)
		var wg sync.WaitGroup
		for w := 0; w < 8; w++ {
			wg.Add(1)
			go func(w int) {
				defer wg.Done()
				for k := 0; atomic.LoadInt32(&stop) == 0; k++ {
					n := 1 + (k+w)%3
					evs := make([][]byte, n)
					for j := range evs {
						evs[j] = []byte(fmt.Sprintf("load-%d-%d-%d-%d", cy, w, k, j))
					}
					atomic.AddInt64(&submitted, int64(n))
					// straight at the RaftNode (no harness guard): writers keep submitting while Close runs; a failure
					// inside the writer's own call (the node is going away) is the writer's problem, not a verdict
					var snaps []*balloon.Snapshot
					var err error
					if pan, _ := lib.Recover(func() { snaps, err = nd.N.AddBulk(evs) }); pan || err != nil || len(snaps) != n {
						if atomic.LoadInt32(&closing) == 1 {
							time.Sleep(time.Millisecond)
						}
						continue
					}
					mu.Lock()
					for j, sn := range snaps {
						acks = append(acks, ack{string(evs[j]), sn.Version})
					}
					mu.Unlock()
				}
			}(w)
		}
		time.Sleep(time.Duration(150+100*cy) * time.Millisecond)
		atomic.StoreInt32(&closing, 1)
		var cerr error
		lib.Recover(func() { cerr = nd.N.Close(true) })
		atomic.StoreInt32(&stop, 1)
		nd.Close() // the harness's own bookkeeping (snapshot channel)
		wdone := make(chan struct{})
		go func() { wg.Wait(); close(wdone) }()
		select {
		case <-wdone:
		case <-time.After(5 * time.Second):
			// raft does not answer proposals that were still queued when it shut down: those callers stay blocked
			fmt.Printf("LIFE-INFO cycle=%d some writers are still waiting for an answer from the stopped node\n", cy)
		}
		if cerr != nil {
			fmt.Printf("LIFE-VIOLATION close-error cycle=%d: %v\n", cy, cerr)
			return 5
		}
		mu.Lock()
		fmt.Printf("LIFE-LOAD cycle=%d acknowledged=%d submitted=%d\n", cy, len(acks), atomic.LoadInt64(&submitted))
		mu.Unlock()
	}
	fmt.Println("LIFE-DONE")
	return 0
}

func RunC08(c *lib.Ctx) {
	c.Rule = "cases: (a) balloon level on both back-ends: a log is closed and reopened (RocksDB: store closed and reopened; in-memory: new balloon over the same store) at a chain of stop points covering every prefix length 0..N, plus independent single-stop runs; after each reopen the version, the hyper-cache invariant, proofs for pre-stop events against pre-stop snapshots, and every later snapshot are compared with the reference trees (= an uninterrupted twin); (b) node level: child processes run open -> inserts -> Close(true) cycles of a real RaftNode on the same directories: exit status 0, no abort/assertion/panic on stderr, restarted node at the expected version with reference-equal snapshots, no per-cycle growth of open file descriptors; one lifecycle stops the node while 8 writers are inserting: the stop must not take the process down, and after the restart every acknowledged event sits at its acknowledged version; non-trivial = at least one reopen; distinct by (level, back-end, stop points)."
	c.Assume = []string{"Debian librocksdb is built with assertions: a resource still referenced at Close aborts the child", "fd accounting compares the count after each cycle's Close with the count after the first cycle's Close (the runtime opens a few descriptors lazily)"}
	r0 := c.Rand("cases")
	n := c.Q(20, 120)
	var cases []c08case
	var seeds []uint64
	for _, be := range []string{"rocksdb", "bplus"} {
		all := c08case{ID: "chain-" + be, Backend: be, N: n}
		for s := 0; s <= n; s++ {
			all.Stops = append(all.Stops, s)
		}
		cases = append(cases, all)
		seeds = append(seeds, r0.Uint64())
		for k := 0; k < c.Q(3, 12); k++ {
			r := lib.NewRand(r0.Uint64())
			nn := r.Pick(5, 17, 33, 64, 100)
			cases = append(cases, c08case{ID: fmt.Sprintf("single-%s-%d", be, k), Backend: be, N: nn, Stops: []int{r.Intn(nn + 1)}})
			seeds = append(seeds, r.Uint64())
		}
	}
	// large logs: more than 1000 hyper-cache tiles have to be reloaded at reopen (read in chunks of 1000)
	for _, be := range []string{"rocksdb", "bplus"} {
		nb := c.Q(1300, 3500)
		cases = append(cases, c08case{ID: "big-" + be, Backend: be, N: nb, Stops: []int{nb - 250, nb}, MaxBulk: 200})
		seeds = append(seeds, r0.Uint64())
	}
	parallelN(len(cases), 4, func(i int) {
		if c.Only != "" && c.Only != cases[i].ID {
			return
		}
		c08Balloon(c, cases[i], seeds[i])
		if i%4 == 0 {
			cs := cases[i]
			if len(cs.Stops) > 8 {
				cs.Stops = append(cs.Stops[:8:8], -1)
			}
			c.Sample(cs)
		}
	})
	// (b) node lifecycles in child processes
	type life struct {
		per, cycles int
		snap        bool
		load        bool
	}
	lifes := []life{{0, 2, false, false}, {1, 3, false, false}, {5, 3, false, false}, {40, 2, false, false}, {6, 3, true, false}, {30, 2, true, false}, {0, 4, false, true}}
	if c.Thorough() {
		lifes = append(lifes, life{2, 6, false, false}, life{17, 4, false, false}, life{100, 3, false, false}, life{300, 2, false, false}, life{3, 8, false, false}, life{2, 4, true, false}, life{200, 3, true, false}, life{0, 8, false, true}, life{1, 8, false, true})
	}
	bin := os.Getenv("QV_BIN")
	if bin == "" {
		bin, _ = os.Executable()
	}
	parallelN(len(lifes), 2, func(i int) {
		lf := lifes[i]
		id := fmt.Sprintf("life-%d-%d", lf.per, lf.cycles)
		snapArg := "nosnap"
		if lf.snap {
			id += "-snap"
			snapArg = "snap"
		}
		if lf.load {
			id += "-load"
			snapArg = "load"
		}
		if c.Only != "" && c.Only != id {
			return
		}
		dir := c.Dir(id)
		outp := filepath.Join(dir, "child.out")
		out, _ := os.Create(outp)
		cmd := exec.Command(bin, "worker", "c08-life", filepath.Join(dir, "node"), fmt.Sprint(lf.per), fmt.Sprint(lf.cycles), snapArg)
		cmd.Stdout, cmd.Stderr = out, out
		if err := cmd.Start(); err != nil {
			c.Inconclusive("cannot start child: " + err.Error())
			return
		}
		done := make(chan error, 1)
		go func() { done <- cmd.Wait() }()
		var werr error
		select {
		case werr = <-done:
		case <-time.After(5 * time.Minute):
			cmd.Process.Signal(os.Interrupt)
			cmd.Process.Kill()
			c.Violation("C08:node:shutdown-hangs", fmt.Sprintf("lifecycle %s: the child did not finish open/insert/close cycles within 5 minutes", id), map[string]string{"id": id})
			return
		}
		out.Close()
		buf, _ := ioutil.ReadFile(outp)
		text := string(buf)
		detail := map[string]string{"id": id, "output": tail(text, 3000)}
		code := 0
		if werr != nil {
			code = -1
			if ee, ok := werr.(*exec.ExitError); ok {
				code = ee.ExitCode()
			}
		}
		switch {
		case strings.Contains(text, "Assertion") || strings.Contains(text, "SIGABRT"):
			c.Violation("C08:close-abort", fmt.Sprintf("lifecycle %s: the process aborted while closing a node: %s", id, firstLine(text, "Assertion", "SIGABRT")), detail)
		case strings.Contains(text, "LIFE-VIOLATION"):
			c.Violation("C08:node:"+word(firstLine(text, "LIFE-VIOLATION"), 1), fmt.Sprintf("lifecycle %s: %s", id, firstLine(text, "LIFE-VIOLATION")), detail)
		case strings.Contains(text, "panic:") || strings.Contains(text, "fatal error:"):
			c.Violation("C08:node:panic", fmt.Sprintf("lifecycle %s: the process panicked: %s", id, firstLine(text, "panic:", "fatal error:")), detail)
		case code == 4 && strings.Contains(text, "LIFE-ERROR") && strings.Contains(firstLine(text, "LIFE-ERROR"), "start:") && !strings.Contains(firstLine(text, "LIFE-ERROR"), "cycle=0 "):
			// the node was closed cleanly in the previous cycle and does not come back on the same data
			c.Violation("C08:node:does-not-reopen", fmt.Sprintf("lifecycle %s: after a clean stop the node cannot be opened again on its data: %s", id, firstLine(text, "LIFE-ERROR")), detail)
		case code == 3 || code == 4:
			c.Inconclusive(fmt.Sprintf("lifecycle %s: %s", id, firstLine(text, "LIFE-INCONCLUSIVE", "LIFE-ERROR")))
		case code != 0 || !strings.Contains(text, "LIFE-DONE"):
			c.Violation("C08:node:exit-status", fmt.Sprintf("lifecycle %s: child exited with status %d without finishing", id, code), detail)
		default:
			// fd accounting: no growth per cycle after the first
			var fds []int
			for _, ln := range strings.Split(text, "\n") {
				if strings.HasPrefix(ln, "LIFE cycle=") {
					for _, f := range strings.Fields(ln) {
						if strings.HasPrefix(f, "fds=") {
							x, _ := strconv.Atoi(f[4:])
							fds = append(fds, x)
						}
					}
				}
			}
			c.Count("node_lifecycles_completed", 1)
			c.Count("stops_under_load", int64(strings.Count(text, "LIFE-LOAD cycle=")))
			c.Count("raft_snapshots_taken_inside_lifecycles", int64(strings.Count(text, "raft snapshot taken")))
			if lf.snap && !strings.Contains(text, "raft snapshot taken") {
				c.Inconclusive(fmt.Sprintf("lifecycle %s: no raft snapshot could be taken between the insertions", id))
			}
			c.Count("node_close_cycles", int64(len(fds)))
			c.Seen("fd_counts_after_close", fmt.Sprint(fds))
			if len(fds) >= 2 && fds[len(fds)-1] > fds[0] {
				c.Violation("C08:node:fd-leak", fmt.Sprintf("lifecycle %s: open file descriptors after Close grow over open/close cycles: %v", id, fds), detail)
			}
			c.Case("node/"+id, true)
		}
	})
}

func firstLine(text string, needles ...string) string {
	for _, ln := range strings.Split(text, "\n") {
		for _, n := range needles {
			if strings.Contains(ln, n) {
				return ln
			}
		}
	}
	return ""
}

func word(s string, i int) string {
	f := strings.Fields(s)
	if i < len(f) {
		return f[i]
	}
	return "unknown"
}
