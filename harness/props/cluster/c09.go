package cluster

import (
	"bytes"
	"context"
	"fmt"
	"io"
	"time"

	"github.com/bbva/qed/consensus"
	"github.com/bbva/qed/storage"
	"github.com/bbva/qed/storage/rocks"
	"github.com/hashicorp/raft"
	"google.golang.org/grpc/metadata"

	"qedverif/lib"
)

type c09scen struct {
	ID          string `json:"id"`
	FirstMissed int    `json:"first_missed"` // size of the first insertion the stopped follower misses: 0 random, 1 a single event, 2 a bulk
	Kind        string `json:"kind"`         // returning | new
	Before      int    `json:"ops_before_down"`
	While       int    `json:"ops_while_down"`
	After       int    `json:"ops_after_rejoin"`
	ViaLead     bool   `json:"then_lead_from_restored_node"`
	Seed        uint64 `json:"seed"`
}

func RunC09(c *lib.Ctx) {
	c.Rule = "case (a) = one 3-node cluster (TrailingLogs=0) where a follower is stopped (returning; the first insertion it misses is a single event or a bulk, by scenario) or never existed (new), the log is compacted on the remaining nodes by forced raft snapshots while insertions continue, and the follower is (re)started so that it can only catch up by InstallSnapshot -> Restore -> WAL transfer; after bounded convergence (leader's index and version within 90 s, else inconclusive; repeated 3x = violation) the quiescent-point oracle of C06 runs (table dumps, hyper-cache invariant, every replica's proofs against the leader's snapshots), then leadership is moved to the restored node and its snapshots for further insertions are compared with the reference; case (b) = RaftNode.FetchSnapshot driven directly with (StartSeqNum, EndSeqNum, LastAppliedVersion) taken from real prefix states and shifted ones: the streamed batches are loaded into a store holding that prefix, and either an error was returned or the resulting store equals the reference state of a gap-free prefix; non-trivial (a) = the follower really was behind the compaction point, (b) = request that streams >= 1 batch or is refused; distinct by scenario shape."
	c.Assume = []string{"convergence is restated as bounded progress (90 s after rejoin, faults stopped)", "state transfer is triggered by making the missing entries unavailable in the leader's raft log (forced snapshot, TrailingLogs=0)"}
	r0 := c.Rand("scen")
	n := c.Q(4, 24)
	scens := make([]c09scen, n)
	for i := range scens {
		r := lib.NewRand(r0.Uint64())
		kind := "returning"
		if i%2 == 1 {
			kind = "new"
		}
		scens[i] = c09scen{ID: fmt.Sprintf("s%d", i), Kind: kind, Before: r.Range(2, 12), While: r.Range(4, 16), After: r.Range(3, 10), ViaLead: true, Seed: r.Uint64()}
		if i%4 >= 2 {
			scens[i].Before = r.Range(0, 2) // go down very early
		}
		if kind == "returning" {
			// the boundary between what the follower holds and what it misses: a single event (version metadata
			// {L, L+1}) or a bulk; the follower holds at least one event in the first case
			scens[i].FirstMissed = 1 + (i/4)%2
			if i%4 == 0 && scens[i].Before < 1 {
				scens[i].Before = 1
			}
		}
		if i == n-1 {
			// boundary: a brand-new node is transferred a log that holds exactly one event, inserted alone
			scens[i] = c09scen{ID: fmt.Sprintf("s%d", i), Kind: "new-one-event", Before: 1, While: 0, After: r.Range(3, 8), ViaLead: true, Seed: r.Uint64()}
		}
	}
	parallelN(n, 2, func(i int) {
		sc := scens[i]
		if c.Only != "" && c.Only != sc.ID {
			return
		}
		verdict, what := "inconclusive", ""
		noconv := 0
		for attempt := 0; attempt < 3; attempt++ {
			verdict, what = runC09Scenario(c, sc, attempt)
			if verdict == "no-convergence" {
				noconv++
				continue
			}
			if verdict != "inconclusive" {
				break
			}
		}
		if noconv == 3 {
			c.Violation("C09:no-convergence:"+sc.Kind, fmt.Sprintf("scenario %s: the %s follower did not reach the leader's state within 90 s of rejoining in 3 independent attempts (%s)", sc.ID, sc.Kind, what), map[string]interface{}{"id": sc.ID, "scenario": sc})
		} else if verdict == "inconclusive" || verdict == "no-convergence" {
			c.Inconclusive(fmt.Sprintf("scenario %s: %s %s", sc.ID, verdict, what))
		}
		if i < 3 {
			c.Sample(sc)
		}
	})
	runC09Fetch(c)
}

func runC09Scenario(c *lib.Ctx, sc c09scen, attempt int) (string, string) {
	r := lib.NewRand(sc.Seed)
	mod := func(cf *NodeCfg) { cf.TrailingLogs = 0; cf.SnapshotThreshold = 1 << 40 }
	nodes := 3
	if sc.Kind == "new" || sc.Kind == "new-one-event" {
		nodes = 2
	}
	oneEvent := sc.Kind == "new-one-event"
	lc, err := bringUp(c.Dir(fmt.Sprintf("%s-a%d", sc.ID, attempt)), nodes, mod)
	defer lc.CloseAll()
	if err != nil {
		return "inconclusive", "cluster start: " + err.Error()
	}
	rl := newReplicaLog()
	fail := func(key, what string) {
		c.Violation("C09:"+key, fmt.Sprintf("scenario %s (%s follower, %d/%d/%d ops before/while/after): %s", sc.ID, sc.Kind, sc.Before, sc.While, sc.After, what), map[string]interface{}{"id": sc.ID, "scenario": sc})
	}
	forceSize := 0
	load := func(n int) bool {
		for k := 0; k < n; k++ {
			ld := lc.WaitLeader(20 * time.Second)
			if ld == nil {
				return false
			}
			size := r.Pick(1, 1, 2, 5, 13)
			if oneEvent && len(rl.Events) == 0 {
				size = 1
			}
			bulk := r.Bool()
			if forceSize == 1 {
				size, bulk = 1, false
			} else if forceSize == 2 {
				size, bulk = r.Pick(2, 5, 13), true
			}
			if err := rl.add(ld, sc.ID, size, bulk); err != nil {
				if u, ok := err.(*unknownOutcome); ok {
					if _, rerr := rl.resolve(lc, u); rerr != nil {
						return false
					}
					continue
				}
				fail("version-sequence", err.Error())
				return false
			}
			forceSize = 0
		}
		return true
	}
	if !load(sc.Before) {
		return "inconclusive", "load before"
	}
	victim := "n2"
	if sc.Kind == "returning" {
		ld := lc.leader()
		for _, id := range lc.ids(true) {
			if ld == nil || id != ld.Cfg.ID {
				victim = id
			}
		}
		if !lc.Quiesce(30 * time.Second) {
			return "inconclusive", "quiesce before stop"
		}
		lc.StopGuarded(victim)
	}
	forceSize = sc.FirstMissed
	if !load(sc.While) {
		return "inconclusive", "load while down"
	}
	// compact the log on every remaining node
	for _, id := range lc.ids(true) {
		nd := lc.Nodes[id]
		err := Call(nd, func() error { return nd.N.VerifForceSnapshot() })
		if err != nil && err != raft.ErrNothingNewToSnapshot {
			return "inconclusive", "forced snapshot failed: " + err.Error()
		}
		c.Count("forced_snapshots", 1)
	}
	if !oneEvent && !load(2) {
		return "inconclusive", "load after compaction"
	}
	ld := lc.leader()
	if ld == nil {
		return "inconclusive", "no leader"
	}
	first, _ := ld.N.VerifRaft().Stats()["last_snapshot_index"], 0
	c.Seen("leader_last_snapshot_index", first)
	// (re)start the follower: it can only catch up by state transfer
	if _, err := lc.Start(victim, false, func(cf *NodeCfg) { mod(cf); cf.Bootstrap = false }); err != nil {
		return "inconclusive", "follower start: " + err.Error()
	}
	if !load(sc.After) {
		return "inconclusive", "load after rejoin"
	}
	if lc.WaitLeader(20*time.Second) == nil {
		return "inconclusive", "no leader after rejoin"
	}
	if !lc.Quiesce(90 * time.Second) {
		return "no-convergence", lc.LastQuiesceState
	}
	c.Count("state_transfers_completed", 1)
	rl.checkAgainstReference(0, true, fail)
	checkReplicas(c, lc, rl, r, c.Q(6, 16), fail)
	// lead from the restored node
	if sc.ViaLead {
		nd := lc.Nodes[victim]
		ld := lc.leader()
		if ld != nil && ld != nd {
			Call(ld, func() error {
				return ld.N.VerifRaft().LeadershipTransferToServer(raft.ServerID(victim), raft.ServerAddress(nd.RaftAddr())).Error()
			})
		}
		deadline := time.Now().Add(20 * time.Second)
		for time.Now().Before(deadline) && !nd.IsLeader() {
			time.Sleep(50 * time.Millisecond)
		}
		if nd.IsLeader() {
			before := len(rl.Snaps)
			if !load(r.Range(3, 8)) {
				return "inconclusive", "load via restored leader"
			}
			rl.checkAgainstReference(before, true, func(k, w string) {
				fail("restored-leader:"+k, "insertions applied with the restored node as leader: "+w)
			})
			if lc.Quiesce(60 * time.Second) {
				checkReplicas(c, lc, rl, r, 3, fail)
			}
			c.Count("led_from_restored_node", 1)
			// the restored node now has to SERVE a state transfer: another follower goes down, the log is
			// compacted again, the follower comes back and can only catch up from the restored leader
			var other string
			for _, id := range lc.ids(true) {
				if id != victim {
					other = id
				}
			}
			if other != "" && nd.IsLeader() {
				lc.StopGuarded(other)
				forceSize = 1 + int(r.Uint64()%2)
				if load(r.Range(3, 8)) {
					for _, id := range lc.ids(true) {
						x := lc.Nodes[id]
						Call(x, func() error { return x.N.VerifForceSnapshot() })
					}
					if load(2) {
						if _, err := lc.Start(other, false, func(cf *NodeCfg) { mod(cf); cf.Bootstrap = false }); err == nil && load(2) {
							if lc.WaitLeader(20*time.Second) != nil && lc.Quiesce(90*time.Second) {
								rl.checkAgainstReference(0, true, fail)
								checkReplicas(c, lc, rl, r, 4, fail)
								c.Count("transfers_served_by_a_restored_node", 1)
							} else {
								c.Count("second_transfer_did_not_converge(inconclusive)", 1)
							}
						}
					}
				}
			}
		} else {
			c.Count("leadership_transfer_to_restored_node_failed", 1)
		}
	}
	c.Case(fmt.Sprintf("%s/before%d/while%d/firstmissed%d", sc.Kind, minInt(sc.Before, 3), sc.While/4, sc.FirstMissed), true)
	return "held", ""
}

// ---------- (b) FetchSnapshot driven directly ----------

type recStream struct {
	chunks [][]byte
	ctx    context.Context
}

func (s *recStream) Send(ch *consensus.Chunk) error {
	s.chunks = append(s.chunks, append([]byte{}, ch.Content...))
	return nil
}
func (s *recStream) SetHeader(metadata.MD) error  { return nil }
func (s *recStream) SendHeader(metadata.MD) error { return nil }
func (s *recStream) SetTrailer(metadata.MD)       {}
func (s *recStream) Context() context.Context     { return s.ctx }
func (s *recStream) SendMsg(m interface{}) error  { return nil }
func (s *recStream) RecvMsg(m interface{}) error  { return io.EOF }

type chunkReader struct{ r *bytes.Reader }

func (c chunkReader) Read(p []byte) (int, error) { return c.r.Read(p) }
func (c chunkReader) Close() error               { return nil }

func runC09Fetch(c *lib.Ctx) {
	if c.Only != "" && c.Only != "fetch" {
		return
	}
	r := c.Rand("fetch")
	lc, err := bringUp(c.Dir("fetch-leader"), 1, nil)
	defer lc.CloseAll()
	if err != nil {
		c.Inconclusive("fetch: leader start failed")
		return
	}
	ld := lc.Nodes["n0"]
	rl := newReplicaLog()
	nEntries := c.Q(14, 40)
	seq := []uint64{ld.Raw.LastWALSequenceNumber()} // seq[i] = WAL sequence number after entry i
	ver := []int64{-1}                              // ver[i] = last version after entry i
	for i := 1; i <= nEntries; i++ {
		if err := rl.add(ld, "f", r.Pick(1, 2, 3, 7), false); err != nil {
			c.Inconclusive("fetch: add failed")
			return
		}
		seq = append(seq, ld.Raw.LastWALSequenceNumber())
		ver = append(ver, int64(len(rl.Events)-1))
	}
	end := seq[nEntries]
	fetch := func(start, until uint64, lastApplied uint64) ([][]byte, error) {
		st := &recStream{ctx: context.Background()}
		var ferr error
		pan, msg := lib.Recover(func() {
			ferr = ld.N.FetchSnapshot(&consensus.FetchSnapshotRequest{StartSeqNum: start, EndSeqNum: until, LastAppliedVersion: lastApplied}, st)
		})
		if pan {
			return nil, fmt.Errorf("PANIC: %s", msg)
		}
		return st.chunks, ferr
	}
	load := func(st *rocks.RocksDBStore, chunks [][]byte) error {
		var all []byte
		for _, ch := range chunks {
			all = append(all, ch...)
		}
		return st.LoadSnapshot(chunkReader{bytes.NewReader(all)})
	}
	// reference prefix stores: the leader's state after entry p, rebuilt by a full gap-free transfer
	prefixDump := map[int]map[string]string{}
	mkPrefix := func(p int, dir string) (*rocks.RocksDBStore, error) {
		st, err := rocks.NewRocksDBStore(dir, 0)
		if err != nil {
			return nil, err
		}
		if p > 0 {
			chunks, ferr := fetch(0, seq[p], 0)
			if ferr != nil {
				st.Close()
				return nil, ferr
			}
			if err := load(st, chunks); err != nil {
				st.Close()
				return nil, err
			}
		}
		return st, nil
	}
	dumpOf := func(st storage.Store) map[string]string {
		m := map[string]string{}
		for _, t := range []storage.Table{storage.HyperTable, storage.HyperCacheTable, storage.HistoryTable} {
			m[t.String()] = DumpTable(st, t).Hash
		}
		return m
	}
	for p := 0; p <= nEntries; p++ {
		st, err := mkPrefix(p, c.Dir(fmt.Sprintf("fetch-prefix-%d", p)))
		if err != nil {
			c.Inconclusive(fmt.Sprintf("fetch: cannot build prefix store %d: %v", p, err))
			return
		}
		prefixDump[p] = dumpOf(st)
		st.Close()
	}
	// the full transfer must reproduce the leader's tables
	full := dumpOf(ld.Raw)
	for t, h := range full {
		if prefixDump[nEntries][t] != h {
			c.Violation("C09:fetch:full-transfer-differs", fmt.Sprintf("a full WAL transfer into an empty store does not reproduce the leader's %s table", t), map[string]string{"id": "fetch"})
		}
	}
	nreq := c.Q(40, 300)
	for q := 0; q < nreq; q++ {
		p := r.Intn(nEntries) // follower holds entries 1..p
		kind := r.Intn(4)
		startEntry, lastEntry := p, p
		switch kind {
		case 1: // follower's WAL position is ahead of what it says it applied (duplicates offered)
			lastEntry = r.Intn(p + 1)
		case 2: // gap: the stream can only start after entries the follower does not have (at least one batch left to send)
			if p+1 >= nEntries {
				kind = 0
				break
			}
			startEntry = p + 1 + r.Intn(nEntries-p-1)
		case 3: // follower claims to have applied more than it holds
			lastEntry = p + 1 + r.Intn(nEntries-p)
		}
		lastApplied := uint64(0)
		if ver[lastEntry] > 0 {
			lastApplied = uint64(ver[lastEntry])
		}
		id := fmt.Sprintf("fetch-q%d", q)
		chunks, ferr := fetch(seq[startEntry], end, lastApplied)
		c.Count("fetch_requests", 1)
		shape := fmt.Sprintf("kind%d", kind)
		if ferr != nil {
			if len(ferr.Error()) > 6 && ferr.Error()[:6] == "PANIC:" {
				c.Violation("C09:fetch:panic", fmt.Sprintf("FetchSnapshot(start=seq after entry %d, lastApplied=version after entry %d) panicked: %v", startEntry, lastEntry, ferr), map[string]string{"id": "fetch"})
			}
			c.Count("fetch_refused", 1)
			c.Case("fetch/"+shape+"/refused", true)
			continue
		}
		st, err := mkPrefix(p, c.Dir(id))
		if err != nil {
			c.Inconclusive("fetch: prefix store: " + err.Error())
			continue
		}
		if err := load(st, chunks); err != nil {
			st.Close()
			c.Count("fetch_load_errors", 1)
			continue
		}
		got := dumpOf(st)
		st.Close()
		match := -1
		for pp := 0; pp <= nEntries; pp++ {
			same := true
			for t, h := range prefixDump[pp] {
				if got[t] != h {
					same = false
				}
			}
			if same {
				match = pp
			}
		}
		c.Count("fetch_streams_applied", 1)
		if kind != 3 && match >= 0 && match != nEntries {
			// the call reported success, so the follower goes on from "the snapshot's state": it must be there
			c.Violation("C09:fetch:success-without-reaching-the-snapshot:"+shape, fmt.Sprintf("FetchSnapshot(start=seq after entry %d, end=last, lastApplied=version after entry %d) returned no error and streamed %d chunks, but a follower holding entries 1..%d ends up holding entries 1..%d instead of all %d (a gap was neither refused nor filled)", startEntry, lastEntry, len(chunks), p, match, nEntries), map[string]interface{}{"id": "fetch", "follower_entries": p, "start_entry": startEntry, "last_applied_entry": lastEntry})
		}
		if match < 0 && kind == 3 {
			// the follower claimed to have applied more than it holds: the leader cannot know; information only
			c.Count("fetch_follower_claimed_more_than_it_holds(result_has_gap)", 1)
		} else if match < 0 {
			c.Violation("C09:fetch:gap-applied:"+shape, fmt.Sprintf("FetchSnapshot(start=seq after entry %d, end=last, lastApplied=version after entry %d) streamed %d chunks without error; applied to a follower holding entries 1..%d the result equals no gap-free prefix of the log", startEntry, lastEntry, len(chunks), p), map[string]interface{}{"id": "fetch", "follower_entries": p, "start_entry": startEntry, "last_applied_entry": lastEntry})
		}
		c.Case(fmt.Sprintf("fetch/%s/chunks%d/prefix%v", shape, minInt(len(chunks), 3), match >= 0), len(chunks) > 0)
	}
}
