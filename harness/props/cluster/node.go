// Package cluster holds the monitors that need real RaftNodes (C05-C10, C16): in-process
// and child-process node orchestration, an injectable store wrapper, quiescence detection,
// table dumps and recorded-history checkers.
package cluster

import (
	"bytes"
	"crypto/sha256"
	"encoding/hex"
	"fmt"
	"net"
	"os"
	"path/filepath"
	"sync"
	"sync/atomic"
	"time"

	"github.com/bbva/qed/balloon"
	"github.com/bbva/qed/consensus"
	"github.com/bbva/qed/crypto/hashing"
	"github.com/bbva/qed/protocol"
	"github.com/bbva/qed/storage"
	"github.com/bbva/qed/storage/rocks"

	"qedverif/lib"
)

// ---------- injectable store ----------

// InjStore delegates to a real ManagedStore and calls the hook around every Mutate
// (the apply path's single storage write). The hook may block, sleep or kill the process.
type InjStore struct {
	storage.ManagedStore
	mu      sync.Mutex
	mutates int64
	closed  int32
	Hook    func(ordinal int64, phase string, muts []*storage.Mutation) // phase: "before" | "after"
	FailAt  int64                                                       // if != 0: the Mutate with this ordinal returns an error instead of writing
}

// Close closes the underlying store exactly once: NewRaftNode closes the store itself on some of its failure
// paths (node.Close after a failed join) and not on others, and a second Close of a RocksDB store is a
// use-after-free in native code that would take the whole monitor process down.
func (s *InjStore) Close() error {
	if !atomic.CompareAndSwapInt32(&s.closed, 0, 1) {
		return nil
	}
	return s.ManagedStore.Close()
}

func (s *InjStore) Mutate(muts []*storage.Mutation, meta []byte) error {
	n := atomic.AddInt64(&s.mutates, 1)
	s.mu.Lock()
	h := s.Hook
	s.mu.Unlock()
	if h != nil {
		h(n, "before", muts)
	}
	s.mu.Lock()
	ff := s.FailAt
	s.mu.Unlock()
	if ff != 0 && n == ff {
		return fmt.Errorf("injected store fault: IO error while writing batch %d", n)
	}
	err := s.ManagedStore.Mutate(muts, meta)
	if h != nil {
		h(n, "after", muts)
	}
	return err
}

func (s *InjStore) SetHook(h func(int64, string, []*storage.Mutation)) {
	s.mu.Lock()
	s.Hook = h
	s.mu.Unlock()
}

func (s *InjStore) Mutates() int64 { return atomic.LoadInt64(&s.mutates) }

// ---------- ports ----------

var portCounter int32

// FreePort returns a loopback port that is free right now, from a per-process range.
func FreePort() int {
	for tries := 0; tries < 2000; tries++ {
		p := 20000 + (os.Getpid()%400)*100 + int(atomic.AddInt32(&portCounter, 1))%100
		if tries > 100 {
			p = 20000 + int(time.Now().UnixNano()%40000)
		}
		l, err := net.Listen("tcp", fmt.Sprintf("127.0.0.1:%d", p))
		if err == nil {
			l.Close()
			return p
		}
	}
	return 0
}

// ---------- node ----------

type NodeCfg struct {
	ID                string
	Dir               string // holds db/ and raft/
	Port              int
	Bootstrap         bool
	Seeds             []string
	SnapshotThreshold uint64
	TrailingLogs      uint64
	Timeout           time.Duration // raft heartbeat/election/lease (default 300ms)
	SnapChanCap       int           // capacity of the channel insertions hand their snapshots to (default 65536, as the server)
	SnapConsumerDelay time.Duration // the consumer of that channel takes this long per snapshot
	Hook              func(int64, string, []*storage.Mutation)
}

type Node struct {
	Cfg    NodeCfg
	N      *consensus.RaftNode
	Store  *InjStore
	Raw    *rocks.RocksDBStore
	snapCh chan *protocol.Snapshot
	done   chan struct{}
	Snaps  int64 // snapshots emitted on the channel
	closed bool
	snapMu sync.Mutex
	SnapVs []uint64 // versions of the snapshots handed off, in order of arrival
}

func (n *Node) RaftAddr() string { return fmt.Sprintf("127.0.0.1:%d", n.Cfg.Port) }

func StartNode(cfg NodeCfg) (*Node, error) {
	if cfg.Timeout == 0 {
		cfg.Timeout = 300 * time.Millisecond
	}
	dbPath := filepath.Join(cfg.Dir, "db")
	raftPath := filepath.Join(cfg.Dir, "raft")
	os.MkdirAll(dbPath, 0755)
	os.MkdirAll(raftPath, 0755)
	raw, err := rocks.NewRocksDBStore(dbPath, 0)
	if err != nil {
		return nil, fmt.Errorf("open store: %v", err)
	}
	st := &InjStore{ManagedStore: raw, Hook: cfg.Hook}
	opts := consensus.DefaultClusteringOptions()
	opts.NodeID = cfg.ID
	opts.Addr = fmt.Sprintf("127.0.0.1:%d", cfg.Port)
	opts.MgmtAddr = fmt.Sprintf("127.0.0.1:%d", cfg.Port+1)
	opts.HttpAddr = fmt.Sprintf("127.0.0.1:%d", cfg.Port+2)
	opts.Bootstrap = cfg.Bootstrap
	opts.Seeds = cfg.Seeds
	opts.RaftLogPath = raftPath
	opts.SnapshotThreshold = cfg.SnapshotThreshold
	opts.TrailingLogs = cfg.TrailingLogs
	opts.RaftHeartbeatTimeout = cfg.Timeout
	opts.RaftElectionTimeout = cfg.Timeout
	opts.RaftLeaseTimeout = cfg.Timeout
	opts.RaftCommitTimeout = 20 * time.Millisecond
	opts.RaftApplyTimeout = 10 * time.Second
	if cfg.SnapChanCap == 0 {
		cfg.SnapChanCap = 1 << 16
	}
	n := &Node{Cfg: cfg, Store: st, Raw: raw, snapCh: make(chan *protocol.Snapshot, cfg.SnapChanCap), done: make(chan struct{})}
	go func() {
		for s := range n.snapCh {
			atomic.AddInt64(&n.Snaps, 1)
			if cfg.SnapConsumerDelay > 0 {
				n.snapMu.Lock()
				n.SnapVs = append(n.SnapVs, s.Version)
				n.snapMu.Unlock()
				time.Sleep(cfg.SnapConsumerDelay)
			}
		}
		close(n.done)
	}()
	rn, err := consensus.NewRaftNode(opts, st, n.snapCh, nil)
	if err != nil {
		// NewRaftNode closes what it opened only partially; close the store ourselves if still open
		lib.Recover(func() { st.Close() })
		close(n.snapCh)
		return nil, err
	}
	n.N = rn
	return n, nil
}

// Close shuts the node down cleanly (raft, log store, balloon, database).
func (n *Node) Close() error {
	if n.closed {
		return nil
	}
	n.closed = true
	err := n.N.Close(true)
	close(n.snapCh)
	<-n.done
	return err
}

func (n *Node) IsLeader() bool {
	var l bool
	lib.Recover(func() { l = n.N.IsLeader() })
	return l
}

func (n *Node) Version() uint64 { return n.N.VerifBalloon().Version() }

func (n *Node) Applied() uint64 { return n.N.VerifRaft().AppliedIndex() }

func (n *Node) LastIndex() uint64 { return n.N.VerifRaft().LastIndex() }

// ---------- cluster ----------

type Cluster struct {
	Dir              string
	Nodes            map[string]*Node // live nodes
	Cfgs             map[string]NodeCfg
	Order            []string
	LastQuiesceState string
}

func NewCluster(dir string) *Cluster {
	return &Cluster{Dir: dir, Nodes: map[string]*Node{}, Cfgs: map[string]NodeCfg{}}
}

// Start starts (or restarts on the same directories) node id.
func (c *Cluster) Start(id string, bootstrap bool, mod func(*NodeCfg)) (*Node, error) {
	cfg, ok := c.Cfgs[id]
	if !ok {
		cfg = NodeCfg{ID: id, Dir: filepath.Join(c.Dir, id), Port: FreePort(), Bootstrap: bootstrap, TrailingLogs: 10240, SnapshotThreshold: 8192}
		// consecutive ports port+1/+2 are only advertised, never bound
		if !bootstrap {
			for _, o := range c.Order {
				if n, ok := c.Nodes[o]; ok {
					cfg.Seeds = append(cfg.Seeds, n.RaftAddr())
				}
			}
		}
		c.Order = append(c.Order, id)
	}
	if mod != nil {
		mod(&cfg)
	}
	c.Cfgs[id] = cfg
	n, err := StartNode(cfg)
	if err != nil {
		return nil, err
	}
	c.Nodes[id] = n
	return n, nil
}

func (c *Cluster) Stop(id string) error {
	n, ok := c.Nodes[id]
	if !ok {
		return nil
	}
	delete(c.Nodes, id)
	return n.Close()
}

func (c *Cluster) CloseAll() {
	for id := range c.Nodes {
		lib.Recover(func() { c.Stop(id) })
	}
}

// Leader returns the live node that currently believes it is leader (nil if none or several).
func (c *Cluster) Leader() *Node {
	var l *Node
	for _, n := range c.Nodes {
		if n.IsLeader() {
			if l != nil {
				return nil
			}
			l = n
		}
	}
	return l
}

// WaitLeader waits (watchdog) until exactly one live node is leader.
func (c *Cluster) WaitLeader(d time.Duration) *Node {
	deadline := time.Now().Add(d)
	for time.Now().Before(deadline) {
		if l := c.Leader(); l != nil {
			return l
		}
		time.Sleep(50 * time.Millisecond)
	}
	return nil
}

// Quiesce decides the logical condition "no client operation in flight (caller's duty) and every
// live node has applied AND PERSISTED everything the leader committed": a raft Barrier on the leader makes the
// leader's FSM apply all preceding entries, then every live node must report the leader's last
// index as applied AND the leader's version, on two consecutive polls. Returns false when the
// watchdog fires; LastQuiesceState then says what was still different.
func (c *Cluster) Quiesce(d time.Duration) bool {
	deadline := time.Now().Add(d)
	stable := 0
	var barrierOn *Node
	for time.Now().Before(deadline) {
		l := c.Leader()
		if l == nil {
			stable = 0
			time.Sleep(50 * time.Millisecond)
			continue
		}
		if barrierOn != l {
			var berr error
			if pan, _ := lib.Recover(func() { berr = l.N.VerifRaft().Barrier(5 * time.Second).Error() }); pan || berr != nil {
				stable = 0
				time.Sleep(50 * time.Millisecond)
				continue
			}
			barrierOn = l
		}
		li, lv := l.LastIndex(), l.Version()
		ok := true
		sig := ""
		for _, id := range c.Order {
			n, live := c.Nodes[id]
			if !live {
				continue
			}
			a, v := n.Applied(), n.Version()
			_, fv := n.N.VerifFSMState() // set after the store write of the last applied insertion
			sig += fmt.Sprintf("%s:applied=%d/last=%d/version=%d/persisted=%d ", id, a, n.LastIndex(), v, fv+1)
			if a != li || n.LastIndex() != li || v != lv || (v > 0 && fv+1 != v) {
				ok = false
			}
		}
		c.LastQuiesceState = sig
		if ok {
			stable++
			if stable >= 2 {
				return true
			}
		} else {
			stable = 0
		}
		time.Sleep(40 * time.Millisecond)
	}
	return false
}

// ---------- table dumps ----------

var Tables = []storage.Table{storage.HyperTable, storage.HyperCacheTable, storage.HistoryTable, storage.FSMStateTable}

type TableDump struct {
	Hash  string
	Count int
	kvs   []storage.KVPair
}

func DumpTable(st storage.Store, t storage.Table) TableDump {
	h := sha256.New()
	r := st.GetAll(t)
	defer r.Close()
	buf := make([]*storage.KVPair, 512)
	d := TableDump{}
	for {
		n, err := r.Read(buf)
		if n == 0 || err != nil {
			break
		}
		for i := 0; i < n; i++ {
			var l [8]byte
			l[0], l[1], l[2], l[3] = byte(len(buf[i].Key)>>8), byte(len(buf[i].Key)), byte(len(buf[i].Value)>>8), byte(len(buf[i].Value))
			h.Write(l[:])
			h.Write(buf[i].Key)
			h.Write(buf[i].Value)
			d.kvs = append(d.kvs, *buf[i])
			d.Count++
		}
	}
	d.Hash = hex.EncodeToString(h.Sum(nil))
	return d
}

// FirstDiff describes the first differing entry of two dumps.
func FirstDiff(a, b TableDump) string {
	for i := 0; i < len(a.kvs) && i < len(b.kvs); i++ {
		if !bytes.Equal(a.kvs[i].Key, b.kvs[i].Key) {
			return fmt.Sprintf("entry %d: key %x vs %x", i, a.kvs[i].Key, b.kvs[i].Key)
		}
		if !bytes.Equal(a.kvs[i].Value, b.kvs[i].Value) {
			return fmt.Sprintf("entry %d: key %x has different values (%d vs %d bytes)", i, a.kvs[i].Key, len(a.kvs[i].Value), len(b.kvs[i].Value))
		}
	}
	return fmt.Sprintf("sizes %d vs %d", len(a.kvs), len(b.kvs))
}

// ---------- helpers ----------

func HasherF() hashing.Hasher { return hashing.NewSha256Hasher() }

func EventDigest(ev []byte) []byte { return HasherF().Do(ev) }

// ToBalloonSnap is a convenience copy.
func ToBalloonSnap(s *balloon.Snapshot) *balloon.Snapshot {
	c := *s
	return &c
}

// HandedOff returns the versions of the snapshots the node handed to its snapshots channel so far
// (recorded only when SnapConsumerDelay > 0).
func (n *Node) HandedOff() []uint64 {
	n.snapMu.Lock()
	defer n.snapMu.Unlock()
	return append([]uint64{}, n.SnapVs...)
}
