package cluster

import (
	"bytes"
	"fmt"
	"net/http"
	"net/http/httptest"
	"os"
	"path/filepath"
	"sort"
	"strconv"
	"strings"
	"sync"
	"sync/atomic"
	"time"

	"github.com/bbva/qed/api/mgmthttp"
	"github.com/bbva/qed/balloon"
	qedcmd "github.com/bbva/qed/cmd"
	"github.com/bbva/qed/crypto/hashing"
	"github.com/bbva/qed/rocksdb"
	"github.com/bbva/qed/storage/rocks"

	"qedverif/lib"
	"qedverif/ref"
)

// the cobra command tree of `qed` is a process-wide singleton
var cliMu sync.Mutex

type c16case struct {
	ID  string   `json:"id"`
	Ops []string `json:"ops"`
}

func RunC16(c *lib.Ctx) {
	c.Rule = "case = one seeded sequence of add / backup / delete-backup / list operations on a real single RaftNode (3-8 backups), followed by restoring EVERY backup still listed into a fresh directory (what `qed restore` does) and opening a new RaftNode on it with a fresh raft directory: listed metadata must equal the version at backup time, the listing must equal created minus deleted, the restored node must report exactly version v, prove membership/consistency for events <= v against the originally issued snapshots, not know later events, and assign v+1, v+2, ... with reference-equal digests to further insertions (enough of them to cross the raft index recorded in the backup); a backup taken on a node that was brought up to date by raft state transfer must restore to exactly the tables that node holds; non-trivial = backup with >= 1 event restored; distinct by (ops shape, backup version class)."
	c.Assume = []string{"backups of an empty log are not taken (the recorded version v-1 is undefined there)", "restore = rocksdb BackupEngine.RestoreDBFromBackup(id, dir, dir) exactly as cmd/restore.go does"}
	n := c.Q(5, 40)
	r0 := c.Rand("seq")
	seeds := make([]uint64, n)
	for i := range seeds {
		seeds[i] = r0.Uint64()
	}
	parallelN(n, 2, func(i int) {
		id := fmt.Sprintf("q%d", i)
		if c.Only != "" && c.Only != id {
			return
		}
		runC16(c, id, seeds[i])
	})
	for k := 0; k < c.Q(2, 10); k++ {
		id := fmt.Sprintf("load%d", k)
		if c.Only != "" && c.Only != id {
			continue
		}
		runC16UnderLoad(c, id, r0.Uint64())
	}
	for k := 0; k < c.Q(1, 5); k++ {
		id := fmt.Sprintf("transferred%d", k)
		if c.Only != "" && c.Only != id {
			continue
		}
		runC16Transferred(c, id, r0.Uint64())
	}
}

// runC16UnderLoad: backups are taken while writers keep inserting. The version a backup records cannot be
// predicted, but it must agree with its content: the restored log must hold exactly recorded+1 events, prove
// them against the originally issued snapshots and not know later ones.
func runC16UnderLoad(c *lib.Ctx, id string, seed uint64) {
	r := lib.NewRand(seed)
	dir := c.Dir(id)
	lc, err := bringUp(filepath.Join(dir, "src"), 1, nil)
	defer lc.CloseAll()
	if err != nil {
		c.Inconclusive("C16 node start failed: " + err.Error())
		return
	}
	nd := lc.Nodes["n0"]
	fail := func(key, what string) {
		c.Violation("C16:"+key, fmt.Sprintf("sequence %s (backups under concurrent insertions): %s", id, what), map[string]string{"id": id})
	}
	var mu sync.Mutex
	events := map[uint64]string{}
	snaps := map[uint64]*balloon.Snapshot{}
	var stop int32
	var wg sync.WaitGroup
	for w := 0; w < 3; w++ {
		wg.Add(1)
		go func(w int) {
			defer wg.Done()
			for i := 0; atomic.LoadInt32(&stop) == 0; i++ {
				k := 1 + (i+w)%4
				evs := make([][]byte, k)
				for j := range evs {
					evs[j] = []byte(fmt.Sprintf("%s-w%d-%d-%d", id, w, i, j))
				}
				ss, err := nd.N.AddBulk(evs)
				if err != nil {
					continue
				}
				mu.Lock()
				for j, s := range ss {
					events[s.Version] = string(evs[j])
					snaps[s.Version] = s
				}
				mu.Unlock()
			}
		}(w)
	}
	nb := 8
	for b := 0; b < nb; b++ {
		time.Sleep(time.Duration(20+r.Intn(60)) * time.Millisecond)
		if err := nd.N.CreateBackup(); err != nil {
			fail("create-backup", "CreateBackup failed under load: "+err.Error())
		}
	}
	atomic.StoreInt32(&stop, 1)
	wg.Wait()
	infos := nd.N.ListBackups()
	mu.Lock()
	total := uint64(len(events))
	mu.Unlock()
	backupDir := filepath.Join(dir, "src", "n0", "db", "backups")
	for _, in := range infos {
		rec, perr := strconv.ParseUint(in.Metadata, 10, 64)
		if perr != nil {
			fail("metadata-version", fmt.Sprintf("backup %d records %q", in.ID, in.Metadata))
			continue
		}
		dbdir := filepath.Join(dir, fmt.Sprintf("restore-%d", in.ID), "db")
		os.MkdirAll(dbdir, 0755)
		bo := rocksdb.NewDefaultOptions()
		be, err := rocksdb.OpenBackupEngine(bo, backupDir)
		if err != nil {
			c.Inconclusive("open backup engine: " + err.Error())
			return
		}
		ro := rocksdb.NewRestoreOptions()
		err = be.RestoreDBFromBackup(uint32(in.ID), dbdir, dbdir, ro)
		ro.Destroy()
		be.Close()
		bo.Destroy()
		if err != nil {
			fail("restore-failed", fmt.Sprintf("restoring backup %d failed: %v", in.ID, err))
			continue
		}
		st, err := rocks.NewRocksDBStore(dbdir, 0)
		if err != nil {
			fail("restore-failed", fmt.Sprintf("restored store of backup %d does not open: %v", in.ID, err))
			continue
		}
		b, err := balloon.NewBalloon(st, HasherF)
		if err != nil {
			st.Close()
			continue
		}
		got := b.Version()
		if got != rec+1 {
			fail("metadata-version-vs-content", fmt.Sprintf("backup %d records version %d but restores to a log holding %d events (%d were inserted in total)", in.ID, rec, got, total))
		} else if got > 0 {
			// sampled proofs against the originally issued snapshots, and a later event must be unknown
			for k := 0; k < 4; k++ {
				e := uint64(r.Intn(int(got)))
				mu.Lock()
				ev, s1, cur := events[e], snaps[e], snaps[got-1]
				mu.Unlock()
				if s1 == nil || cur == nil {
					continue
				}
				mp, err := b.QueryMembershipConsistency([]byte(ev), e)
				ok := false
				if err == nil {
					lib.Recover(func() {
						ok = mp.DigestVerify(hashing.Digest(EventDigest([]byte(ev))), &balloon.Snapshot{HistoryDigest: s1.HistoryDigest, HyperDigest: c16HyperOfLast(snaps, got-1), Version: e})
					})
				}
				if !ok {
					fail("restored-membership-proof", fmt.Sprintf("backup %d (recorded version %d): proof for event@%d does not verify against the originally issued snapshots (%v)", in.ID, rec, e, err))
					break
				}
			}
			if got < total {
				mu.Lock()
				later := events[got]
				mu.Unlock()
				if mp, err := b.QueryMembership([]byte(later)); err == nil && mp.Exists {
					fail("restored-knows-later-event", fmt.Sprintf("backup %d (recorded version %d) knows the event inserted at version %d", in.ID, rec, got))
				}
			}
		}
		b.Close()
		st.Close()
		c.Count("backups_under_load_restored", 1)
	}
	c.Count("events_inserted_during_backups", int64(total))
	c.Case(fmt.Sprintf("under-load/b%d", len(infos)), len(infos) > 0 && total > 10)
}

// c16HyperOfLast: the hyper digest current when version v was the last one. Under concurrent writers the
// snapshot of version v carries the hyper digest of the END of its bulk, so walk forward to the bulk's end:
// the bulk ends where the next version's hyper digest differs.
func c16HyperOfLast(snaps map[uint64]*balloon.Snapshot, v uint64) []byte {
	return snaps[v].HyperDigest
}

func runC16(c *lib.Ctx, id string, seed uint64) {
	r := lib.NewRand(seed)
	dir := c.Dir(id)
	lc, err := bringUp(filepath.Join(dir, "src"), 1, nil)
	defer lc.CloseAll()
	if err != nil {
		c.Inconclusive("C16 node start failed: " + err.Error())
		return
	}
	nd := lc.Nodes["n0"]
	rl := newReplicaLog()
	cs := &c16case{ID: id}
	fail := func(key, what string) {
		c.Violation("C16:"+key, fmt.Sprintf("sequence %s: %s", id, what), cs)
	}
	type bk struct {
		id      int64
		version uint64 // current version when taken
	}
	var live []bk
	nextID := int64(1)
	nBackups := r.Range(3, 8)
	taken := 0
	mgmt := httptest.NewServer(mgmthttp.NewMgmtHttp(nd.N))
	defer mgmt.Close()
	httpDo := func(method, path string) int {
		req, _ := http.NewRequest(method, mgmt.URL+path, nil)
		resp, err := http.DefaultClient.Do(req)
		if err != nil {
			return -1
		}
		resp.Body.Close()
		return resp.StatusCode
	}
	checkListing := func() {
		infos := nd.N.ListBackups()
		got := map[int64]string{}
		for _, in := range infos {
			got[in.ID] = in.Metadata
		}
		if len(got) != len(live) {
			fail("listing-size", fmt.Sprintf("listing shows %d backups, %d exist (created minus deleted)", len(got), len(live)))
		}
		for _, b := range live {
			md, ok := got[b.id]
			if !ok {
				fail("listing-missing", fmt.Sprintf("backup %d exists but is not listed", b.id))
				continue
			}
			if md != strconv.FormatUint(b.version, 10) {
				fail("metadata-version", fmt.Sprintf("backup %d was taken at version %d but records %q", b.id, b.version, md))
			}
		}
		c.Count("listings_checked", 1)
	}
	for step := 0; taken < nBackups && step < 200; step++ {
		switch k := r.Intn(10); {
		case step == 0 && r.Intn(2) == 0:
			// a backup of a log that holds no event yet: it records "minus one" (2^64-1), i.e. zero events
			if err := nd.N.CreateBackup(); err != nil {
				fail("create-backup", "CreateBackup on an empty log failed: "+err.Error())
				return
			}
			live = append(live, bk{nextID, ^uint64(0)})
			cs.Ops = append(cs.Ops, fmt.Sprintf("backup#%d@empty", nextID))
			nextID++
			taken++
			c.Count("backups_taken", 1)
			c.Count("backups_of_empty_log", 1)
			checkListing()
		case k < 5 || len(rl.Events) == 0:
			size := r.Pick(1, 1, 2, 4, 9, 20)
			if err := rl.add(nd, id, size, r.Bool()); err != nil {
				c.Inconclusive("C16 add failed: " + err.Error())
				return
			}
			cs.Ops = append(cs.Ops, fmt.Sprintf("add%d", size))
		case k < 8:
			if err := nd.N.CreateBackup(); err != nil {
				fail("create-backup", "CreateBackup failed: "+err.Error())
				return
			}
			live = append(live, bk{nextID, uint64(len(rl.Events) - 1)})
			cs.Ops = append(cs.Ops, fmt.Sprintf("backup#%d@v%d", nextID, len(rl.Events)-1))
			nextID++
			taken++
			c.Count("backups_taken", 1)
			checkListing()
		case k == 8 && len(live) > 1:
			x := r.Intn(len(live))
			victim := live[x]
			// a request naming an id that only matches an existing backup after truncation to 32 bits
			// must not delete anything
			other := live[(x+1)%len(live)]
			if st := httpDo("DELETE", fmt.Sprintf("/backup?backupID=%d", uint64(other.id)+(uint64(1)<<32)*uint64(1+r.Intn(3)))); st >= 200 && st < 300 {
				fail("delete-backup:id-beyond-32-bits-accepted", fmt.Sprintf("DELETE /backup with an id of %d + k*2^32 was accepted (status %d)", other.id, st))
			}
			cs.Ops = append(cs.Ops, fmt.Sprintf("delete#%d+k*2^32(must be refused)", other.id))
			checkListing()
			if r.Bool() {
				if st := httpDo("DELETE", fmt.Sprintf("/backup?backupID=%d", victim.id)); st != 204 {
					fail("delete-backup", fmt.Sprintf("DELETE /backup?backupID=%d answered %d", victim.id, st))
					return
				}
			} else if err := nd.N.DeleteBackup(uint32(victim.id)); err != nil {
				fail("delete-backup", fmt.Sprintf("DeleteBackup(%d) failed: %v", victim.id, err))
				return
			}
			live = append(live[:x:x], live[x+1:]...)
			cs.Ops = append(cs.Ops, fmt.Sprintf("delete#%d", victim.id))
			c.Count("backups_deleted", 1)
			checkListing()
		default:
			checkListing()
		}
	}
	// a few more events after the last backup (the restored nodes must not know them)
	rl.add(nd, id, r.Range(1, 6), false)
	total := len(rl.Events)
	backupDir := filepath.Join(dir, "src", "n0", "db", "backups")
	// `qed restore` without an id restores the LATEST backup: run the real command
	if len(live) > 0 {
		latest := live[len(live)-1]
		rdir := filepath.Join(dir, "restore-latest")
		dbdir := filepath.Join(rdir, "r0", "db")
		os.MkdirAll(dbdir, 0755)
		cliMu.Lock()
		qedcmd.Root.SetArgs([]string{"restore", "--backup-dir", backupDir, "--restore-path", dbdir})
		var cerr error
		pan, msg := lib.Recover(func() { cerr = qedcmd.Root.Execute() })
		cliMu.Unlock()
		if pan || cerr != nil {
			fail("restore-latest-failed", fmt.Sprintf("`qed restore` (latest) failed: %v %s", cerr, msg))
		} else if st, err := rocks.NewRocksDBStore(dbdir, 0); err == nil {
			b, berr := balloon.NewBalloon(st, HasherF)
			if berr == nil {
				if got := b.Version(); got != latest.version+1 {
					fail("restore-latest-wrong-backup", fmt.Sprintf("`qed restore` without an id: the latest backup is #%d taken at version %d, but the restored log holds %d events", latest.id, latest.version, got))
				}
				b.Close()
			}
			st.Close()
			c.Count("latest_restores_through_cli", 1)
		}
	}
	// restore every live backup
	for _, b := range live {
		rdir := filepath.Join(dir, fmt.Sprintf("restore-%d", b.id))
		dbdir := filepath.Join(rdir, "r0", "db")
		os.MkdirAll(dbdir, 0755)
		bo := rocksdb.NewDefaultOptions()
		be, err := rocksdb.OpenBackupEngine(bo, backupDir)
		if err != nil {
			c.Inconclusive("open backup engine: " + err.Error())
			return
		}
		ro := rocksdb.NewRestoreOptions()
		err = be.RestoreDBFromBackup(uint32(b.id), dbdir, dbdir, ro)
		ro.Destroy()
		be.Close()
		bo.Destroy()
		if err != nil {
			fail("restore-failed", fmt.Sprintf("restoring backup %d failed: %v", b.id, err))
			continue
		}
		rc := &lockedCluster{Cluster: NewCluster(rdir)}
		rn, err := rc.Start("r0", true, nil)
		if err != nil || rc.WaitLeader(20*time.Second) == nil {
			rc.CloseAll()
			c.Inconclusive(fmt.Sprintf("restored node did not start: %v", err))
			continue
		}
		v := b.version
		if v == ^uint64(0) {
			if got := rn.Version(); got != 0 {
				fail("restored-version", fmt.Sprintf("backup %d was taken of an empty log but the restored node holds %d events", b.id, got))
			}
			c.Count("empty_log_backups_restored", 1)
		} else {
			c16CheckRestored(c, id, b.id, v, total, rn, rl, r, fail)
		}
		rc.CloseAll()
		c.Count("backups_restored", 1)
		c.Case(fmt.Sprintf("ops%d/v%d", len(cs.Ops)/5, bitlenInt(int(v))), true)
	}
	if id == "q0" {
		c.Sample(cs)
	}
}

func c16CheckRestored(c *lib.Ctx, id string, bid int64, v uint64, total int, rn *Node, rl *replicaLog, r *lib.Rand, fail func(key, what string)) {
	tag := fmt.Sprintf("backup %d (taken at version %d)", bid, v)
	if got := rn.Version(); got != v+1 {
		fail("restored-version", fmt.Sprintf("%s: the restored node holds %d events, expected %d", tag, got, v+1))
		return
	}
	// events <= v: membership + consistency against the originally issued snapshots
	for k := 0; k < 8; k++ {
		e := uint64(r.Intn(int(v) + 1))
		q := e + uint64(r.Intn(int(v-e)+1))
		ev := rl.Events[e]
		var mp *balloon.MembershipProof
		err := Call(rn, func() (er error) { mp, er = rn.N.QueryMembershipConsistency([]byte(ev), q); return })
		if err != nil {
			fail("restored-membership-query", fmt.Sprintf("%s: membership query for event@%d failed: %v", tag, e, err))
			continue
		}
		snap := &balloon.Snapshot{HistoryDigest: rl.Snaps[q].HistoryDigest, HyperDigest: c16HyperAt(rl, v), Version: q}
		ok := false
		lib.Recover(func() { ok = mp.DigestVerify(hashing.Digest(EventDigest([]byte(ev))), snap) })
		if !ok || mp.CurrentVersion != v || mp.ActualVersion != e {
			fail("restored-membership-proof", fmt.Sprintf("%s: proof for event@%d at version %d does not verify against the originally issued snapshots (actual=%d current=%d)", tag, e, q, mp.ActualVersion, mp.CurrentVersion))
		}
		i, j := uint64(r.Intn(int(v)+1)), uint64(r.Intn(int(v)+1))
		if i > j {
			i, j = j, i
		}
		var ip *balloon.IncrementalProof
		err = Call(rn, func() (er error) { ip, er = rn.N.QueryConsistency(i, j); return })
		if err != nil {
			fail("restored-consistency-query", fmt.Sprintf("%s: consistency query (%d,%d) failed: %v", tag, i, j, err))
			continue
		}
		ok = false
		lib.Recover(func() { ok = ip.Verify(rl.Snaps[i], rl.Snaps[j]) })
		if !ok {
			fail("restored-consistency-proof", fmt.Sprintf("%s: consistency proof (%d,%d) does not verify against the originally issued snapshots", tag, i, j))
		}
		c.Count("restored_proofs_checked", 2)
	}
	// events > v are unknown
	for e := int(v) + 1; e < total; e++ {
		var mp *balloon.MembershipProof
		err := Call(rn, func() (er error) { mp, er = rn.N.QueryMembership([]byte(rl.Events[e])); return })
		if err == nil && mp.Exists {
			fail("restored-knows-later-event", fmt.Sprintf("%s: the restored node knows event@%d, added after the backup", tag, e))
		}
	}
	if _, err := rn.N.QueryConsistency(0, v+1); err == nil {
		fail("restored-knows-later-version", fmt.Sprintf("%s: the restored node answers a consistency query up to version %d", tag, v+1))
	}
	// further insertions: v+1, v+2, ... with reference-equal digests
	rh, ry := ref.NewHist(), ref.NewHyper()
	for e := uint64(0); e <= v; e++ {
		d := EventDigest([]byte(rl.Events[e]))
		rh.Append(d)
		ry.Insert(d, e)
	}
	oldIdx, _ := rn.N.VerifFSMState()
	want := int(2*(v+3)) + 4
	dropped := 0
	added := 0
	for a := 0; added < want && a < want+int(oldIdx)+20; a++ {
		evs := [][]byte{[]byte(fmt.Sprintf("%s-restored%d-%d", id, bid, a))}
		if a%3 == 2 {
			evs = append(evs, []byte(fmt.Sprintf("%s-restored%d-%d-b", id, bid, a)))
		}
		var snaps []*balloon.Snapshot
		err := Call(rn, func() (er error) { snaps, er = rn.N.AddBulk(evs); return })
		if err != nil {
			dropped++
			continue
		}
		for k, s := range snaps {
			d := EventDigest(evs[k])
			ver := rh.Append(d)
			ry.Insert(d, ver)
			if s.Version != ver {
				fail("restored-next-version", fmt.Sprintf("%s: insertion after restore got version %d, expected %d", tag, s.Version, ver))
				return
			}
			if !bytes.Equal(s.HistoryDigest, rh.Root(ver)) {
				fail("restored-next-history-digest", fmt.Sprintf("%s: history digest of version %d after restore differs from the reference", tag, ver))
				return
			}
		}
		if !bytes.Equal(snaps[len(snaps)-1].HyperDigest, ry.Root()) {
			fail("restored-next-hyper-digest", fmt.Sprintf("%s: hyper digest after restore differs from the reference", tag))
			return
		}
		added++
	}
	c.Count("insertions_after_restore", int64(added))
	if dropped > 0 {
		c.Count("insertions_dropped_after_restore", int64(dropped))
		fail("restored-node:insertions-fail-until-raft-index-passes-backup-index", fmt.Sprintf("%s: the first %d insertions on the restored node failed (its store carries FSM raft index %d of the old cluster; entries of the new raft log with a lower index are skipped as 'already applied' and the proposer gets no snapshots)", tag, dropped, oldIdx))
	}
	if added < want {
		fail("restored-node-cannot-insert", fmt.Sprintf("%s: only %d of %d insertions succeeded on the restored node", tag, added, want))
	}
}

// c16HyperAt returns the hyper digest that was current when version v was the last one
// (the snapshot of the operation that ended at v, or a later snapshot of the same bulk).
func c16HyperAt(rl *replicaLog, v uint64) []byte {
	return rl.Snaps[rl.OpEnd[v]].HyperDigest
}

var _ = sort.Strings
var _ = strings.Join
