package cluster

import (
	"fmt"
	"strconv"
	"sync"
	"sync/atomic"
	"time"

	"github.com/bbva/qed/balloon"
	"github.com/bbva/qed/crypto/hashing"

	"qedverif/lib"
)

func init() {
	Workers["c10-race"] = raceWorkerC10
}

// raceWorkerC10: one real RaftNode, concurrent use of the public API (adds, all query kinds, info,
// backup management) under the race detector. Prints a RACE-WORKLOAD summary line.
func raceWorkerC10(args []string) int {
	dir := args[0]
	seed, _ := strconv.ParseInt(args[1], 10, 64)
	thorough := len(args) > 2 && args[2] == "thorough"
	lc, err := bringUp(dir, 1, nil)
	if err != nil {
		fmt.Println("race worker: node start failed:", err)
		return 3
	}
	nd := lc.Nodes["n0"]
	var mu sync.Mutex
	var events []string
	var adds, queries, qerrs, qpanics, mgmt int64
	dur := 6 * time.Second
	if thorough {
		dur = 20 * time.Second
	}
	stopAt := time.Now().Add(dur)
	var wg sync.WaitGroup
	for g := 0; g < 3; g++ {
		wg.Add(1)
		go func(g int) {
			defer wg.Done()
			r := lib.NewRand(uint64(seed) + uint64(g))
			for i := 0; time.Now().Before(stopAt); i++ {
				k := r.Pick(1, 1, 2, 5, 17)
				evs := make([][]byte, k)
				names := make([]string, k)
				for j := range evs {
					names[j] = fmt.Sprintf("r%d-%d-%d", g, i, j)
					evs[j] = []byte(names[j])
				}
				err := Call(nd, func() error {
					if k == 1 {
						_, e := nd.N.Add(evs[0])
						return e
					}
					_, e := nd.N.AddBulk(evs)
					return e
				})
				if err == nil {
					atomic.AddInt64(&adds, int64(k))
					mu.Lock()
					events = append(events, names...)
					mu.Unlock()
				}
			}
		}(g)
	}
	for g := 0; g < 4; g++ {
		wg.Add(1)
		go func(g int) {
			defer wg.Done()
			r := lib.NewRand(uint64(seed) + 100 + uint64(g))
			for time.Now().Before(stopAt) {
				mu.Lock()
				n := len(events)
				var ev string
				if n > 0 {
					ev = events[r.Intn(n)]
				}
				mu.Unlock()
				if n < 2 {
					time.Sleep(5 * time.Millisecond)
					continue
				}
				err := Call(nd, func() error {
					switch r.Intn(4) {
					case 0:
						_, e := nd.N.QueryMembership([]byte(ev))
						return e
					case 1:
						_, e := nd.N.QueryDigestMembership(hashing.Digest(EventDigest([]byte(ev))))
						return e
					case 2:
						_, e := nd.N.QueryMembershipConsistency([]byte(ev), uint64(r.Intn(n)))
						return e
					default:
						i, j := uint64(r.Intn(n)), uint64(r.Intn(n))
						if i > j {
							i, j = j, i
						}
						var p *balloon.IncrementalProof
						p, e := nd.N.QueryConsistency(i, j)
						_ = p
						return e
					}
				})
				atomic.AddInt64(&queries, 1)
				if err != nil {
					if len(err.Error()) > 6 && err.Error()[:6] == "PANIC:" {
						atomic.AddInt64(&qpanics, 1)
					} else {
						atomic.AddInt64(&qerrs, 1)
					}
				}
			}
		}(g)
	}
	wg.Add(1)
	go func() {
		defer wg.Done()
		for i := 0; time.Now().Before(stopAt); i++ {
			Call(nd, func() error {
				nd.N.Info()
				nd.N.IsLeader()
				nd.N.ClusterInfo()
				if i%5 == 0 {
					nd.N.CreateBackup()
				}
				nd.N.ListBackups()
				return nil
			})
			atomic.AddInt64(&mgmt, 1)
			time.Sleep(20 * time.Millisecond)
		}
	}()
	wg.Wait()
	lc.CloseAll()
	fmt.Printf("RACE-WORKLOAD adds=%d queries=%d query_errors=%d query_panics=%d mgmt_rounds=%d\n", adds, queries, qerrs, qpanics, mgmt)
	return 0
}
