package cluster

import (
	"encoding/json"
	"fmt"
	"strconv"
	"sync"
	"sync/atomic"
	"time"

	"github.com/bbva/qed/balloon"
	"github.com/bbva/qed/crypto/hashing"
	"github.com/bbva/qed/protocol"

	"qedverif/lib"
)

func init() {
	Workers["c10-race"] = raceWorkerC10
}

// raceWorkerC10: one real RaftNode, concurrent use of the public API (adds, all query kinds, info,
// backup management) under the race detector. Prints a RACE-WORKLOAD summary line.
func raceWorkerC10(args []string) int {
	dir := args[0]
	seed, _ := strconv.ParseInt(args[1], 10, 64)
	thorough := len(args) > 2 && args[2] == "thorough"
	lc, err := bringUp(dir, 1, nil)
	if err != nil {
		fmt.Println("race worker: node start failed:", err)
		return 3
	}
	nd := lc.Nodes["n0"]
	var mu sync.Mutex
	var events []string
	var adds, queries, qerrs, qpanics, mgmt int64
	dur := 6 * time.Second
	if thorough {
		dur = 20 * time.Second
	}
	stopAt := time.Now().Add(dur)
	var wg sync.WaitGroup
	for g := 0; g < 3; g++ {
		wg.Add(1)
		go func(g int) {
			defer wg.Done()
			r := lib.NewRand(uint64(seed) + uint64(g))
			for i := 0; time.Now().Before(stopAt); i++ {
				k := r.Pick(1, 1, 2, 5, 17)
				evs := make([][]byte, k)
				names := make([]string, k)
				for j := range evs {
					names[j] = fmt.Sprintf("r%d-%d-%d", g, i, j)
					evs[j] = []byte(names[j])
				}
				err := Call(nd, func() error {
					if k == 1 {
						_, e := nd.N.Add(evs[0])
						return e
					}
					_, e := nd.N.AddBulk(evs)
					return e
				})
				if err == nil {
					atomic.AddInt64(&adds, int64(k))
					mu.Lock()
					events = append(events, names...)
					mu.Unlock()
				}
			}
		}(g)
	}
	for g := 0; g < 4; g++ {
		wg.Add(1)
		go func(g int) {
			defer wg.Done()
			r := lib.NewRand(uint64(seed) + 100 + uint64(g))
			for time.Now().Before(stopAt) {
				mu.Lock()
				n := len(events)
				var ev string
				if n > 0 {
					ev = events[r.Intn(n)]
				}
				mu.Unlock()
				if n < 2 {
					time.Sleep(5 * time.Millisecond)
					continue
				}
				err := Call(nd, func() error {
					switch r.Intn(4) {
					case 0:
						p, e := nd.N.QueryMembership([]byte(ev))
						if e == nil {
							json.Marshal(protocol.ToMembershipResult([]byte(ev), p)) // what the HTTP handler does after the call returned
						}
						return e
					case 1:
						p, e := nd.N.QueryDigestMembership(hashing.Digest(EventDigest([]byte(ev))))
						if e == nil {
							json.Marshal(protocol.ToMembershipResult(nil, p))
						}
						return e
					case 2:
						p, e := nd.N.QueryMembershipConsistency([]byte(ev), uint64(r.Intn(n)))
						if e == nil {
							json.Marshal(protocol.ToMembershipResult([]byte(ev), p))
						}
						return e
					default:
						i, j := uint64(r.Intn(n)), uint64(r.Intn(n))
						if i > j {
							i, j = j, i
						}
						var p *balloon.IncrementalProof
						p, e := nd.N.QueryConsistency(i, j)
						if e == nil {
							json.Marshal(protocol.ToIncrementalResponse(p))
						}
						return e
					}
				})
				atomic.AddInt64(&queries, 1)
				if err != nil {
					if len(err.Error()) > 6 && err.Error()[:6] == "PANIC:" {
						atomic.AddInt64(&qpanics, 1)
					} else {
						atomic.AddInt64(&qerrs, 1)
					}
				}
			}
		}(g)
	}
	wg.Add(1)
	go func() {
		defer wg.Done()
		for i := 0; time.Now().Before(stopAt); i++ {
			Call(nd, func() error {
				nd.N.Info()
				nd.N.IsLeader()
				nd.N.ClusterInfo()
				if i%5 == 0 {
					nd.N.CreateBackup()
				}
				nd.N.ListBackups()
				return nil
			})
			atomic.AddInt64(&mgmt, 1)
			time.Sleep(20 * time.Millisecond)
		}
	}()
	wg.Wait()
	lc.CloseAll()
	fmt.Printf("RACE-WORKLOAD adds=%d queries=%d query_errors=%d query_panics=%d mgmt_rounds=%d\n", adds, queries, qerrs, qpanics, mgmt)
	return 0
}

func init() {
	Workers["c10-race-cluster"] = raceWorkerCluster
}

// raceWorkerCluster: a 3-node in-process cluster (TrailingLogs=0) under the race detector: concurrent adds
// and queries on every replica while a follower is stopped, the log is compacted, the follower returns by
// state transfer and leadership moves. Prints a RACE-WORKLOAD summary line.
func raceWorkerCluster(args []string) int {
	dir := args[0]
	seed, _ := strconv.ParseInt(args[1], 10, 64)
	mod := func(cf *NodeCfg) { cf.TrailingLogs = 0; cf.SnapshotThreshold = 1 << 40 }
	lc, err := bringUp(dir, 3, mod)
	if err != nil {
		fmt.Println("race worker: cluster start failed:", err)
		lc.CloseAll()
		return 3
	}
	var mu sync.Mutex
	var events []string
	var adds, queries, qerrs, qpanics int64
	var stop int32
	var wg sync.WaitGroup
	wg.Add(1)
	go func() { // writer
		defer wg.Done()
		r := lib.NewRand(uint64(seed))
		for i := 0; atomic.LoadInt32(&stop) == 0; i++ {
			ld := lc.leader()
			if ld == nil {
				time.Sleep(20 * time.Millisecond)
				continue
			}
			k := r.Pick(1, 2, 6)
			evs := make([][]byte, k)
			names := make([]string, k)
			for j := range evs {
				names[j] = fmt.Sprintf("rc-%d-%d", i, j)
				evs[j] = []byte(names[j])
			}
			if err := Call(ld, func() error { _, e := ld.N.AddBulk(evs); return e }); err == nil {
				atomic.AddInt64(&adds, int64(k))
				mu.Lock()
				events = append(events, names...)
				mu.Unlock()
			}
		}
	}()
	for g := 0; g < 3; g++ { // readers on every live replica
		wg.Add(1)
		go func(g int) {
			defer wg.Done()
			r := lib.NewRand(uint64(seed) + 50 + uint64(g))
			for atomic.LoadInt32(&stop) == 0 {
				mu.Lock()
				n := len(events)
				var ev string
				if n > 0 {
					ev = events[r.Intn(n)]
				}
				mu.Unlock()
				ids := lc.ids(true)
				if n < 2 || len(ids) == 0 {
					time.Sleep(5 * time.Millisecond)
					continue
				}
				lc.mu.Lock()
				nd := lc.Nodes[ids[r.Intn(len(ids))]]
				lc.mu.Unlock()
				if nd == nil {
					continue
				}
				err := Call(nd, func() error {
					if r.Bool() {
						p, e := nd.N.QueryMembership([]byte(ev))
						if e == nil {
							json.Marshal(protocol.ToMembershipResult([]byte(ev), p))
						}
						return e
					}
					i, j := uint64(r.Intn(n)), uint64(r.Intn(n))
					if i > j {
						i, j = j, i
					}
					_, e := nd.N.QueryConsistency(i, j)
					return e
				})
				atomic.AddInt64(&queries, 1)
				if err != nil {
					if len(err.Error()) > 6 && err.Error()[:6] == "PANIC:" {
						atomic.AddInt64(&qpanics, 1)
					} else {
						atomic.AddInt64(&qerrs, 1)
					}
				}
			}
		}(g)
	}
	// fault plan: follower down, compaction, return by state transfer, leadership transfer
	transfers := 0
	time.Sleep(1500 * time.Millisecond)
	var victim string
	ld := lc.leader()
	for _, id := range lc.ids(true) {
		if ld == nil || id != ld.Cfg.ID {
			victim = id
		}
	}
	lc.mu.Lock()
	lc.StopGuarded(victim)
	lc.mu.Unlock()
	time.Sleep(1500 * time.Millisecond)
	for _, id := range lc.ids(true) {
		lc.mu.Lock()
		nd := lc.Nodes[id]
		lc.mu.Unlock()
		Call(nd, func() error { return nd.N.VerifForceSnapshot() })
	}
	time.Sleep(500 * time.Millisecond)
	lc.mu.Lock()
	_, serr := lc.Start(victim, false, func(cf *NodeCfg) { mod(cf); cf.Bootstrap = false })
	lc.mu.Unlock()
	if serr == nil {
		transfers++
	}
	time.Sleep(2500 * time.Millisecond)
	if ld := lc.leader(); ld != nil {
		Call(ld, func() error { return ld.N.VerifLeaveLeadership() })
	}
	time.Sleep(2 * time.Second)
	atomic.StoreInt32(&stop, 1)
	wg.Wait()
	lc.CloseAll()
	fmt.Printf("RACE-WORKLOAD cluster adds=%d queries=%d query_errors=%d query_panics=%d follower_returns=%d\n", adds, queries, qerrs, qpanics, transfers)
	return 0
}
