package cluster

import (
	"bytes"
	"encoding/json"
	"fmt"
	"sync"
	"time"

	"github.com/bbva/qed/balloon"
	"github.com/bbva/qed/crypto/hashing"
	"github.com/bbva/qed/protocol"
	"github.com/bbva/qed/storage"

	"qedverif/lib"
)

type qAnswer struct {
	Kind    string `json:"kind"` // member-old | member-inflight | digest-at-version | consistency
	Arg     string `json:"arg"`
	Outcome string `json:"outcome"` // verified | clean-error | internal-failure | mixed
	Detail  string `json:"detail,omitempty"`
	InWin   bool   `json:"returned_inside_window"`
	mp      *balloon.MembershipProof
	ip      *balloon.IncrementalProof
	digest  []byte
	err     error
	pan     string
}

type c10case struct {
	ID      string    `json:"id"`
	Prefix  int       `json:"events_before"`
	Bulk    int       `json:"inflight_bulk"`
	Answers []qAnswer `json:"answers,omitempty"`
}

// runWindow blocks the apply path between balloon.AddBulk and the store write of one bulk and
// fires queries meanwhile. snaps holds all snapshots acknowledged so far (index = version) and is
// extended with the in-flight bulk's snapshots.
func runWindow(c *lib.Ctx, nd *Node, cs *c10case, r *lib.Rand, events *[]string, snaps *[]*balloon.Snapshot, nq int) bool {
	entered := make(chan struct{})
	release := make(chan struct{})
	var once sync.Once
	nd.Store.SetHook(func(ord int64, phase string, _ []*storage.Mutation) {
		if phase == "before" {
			fired := false
			once.Do(func() { fired = true })
			if fired {
				close(entered)
				<-release
			}
		}
	})
	pre := len(*snaps)
	k := cs.Bulk
	evs := make([][]byte, k)
	names := make([]string, k)
	for i := range evs {
		names[i] = fmt.Sprintf("%s-w%d-%d", cs.ID, pre, i)
		evs[i] = []byte(names[i])
	}
	type addRes struct {
		s   []*balloon.Snapshot
		err error
	}
	addDone := make(chan addRes, 1)
	go func() {
		var s []*balloon.Snapshot
		err := Call(nd, func() error {
			var e error
			s, e = nd.N.AddBulk(evs)
			return e
		})
		addDone <- addRes{s, err}
	}()
	select {
	case <-entered:
	case <-time.After(20 * time.Second):
		close(release)
		c.Inconclusive(fmt.Sprintf("%s: apply did not reach the store write", cs.ID))
		return false
	}
	c.Count("windows_opened", 1)
	// queries fired while the apply path sits between AddBulk and Mutate
	answers := make([]*qAnswer, nq)
	var wg sync.WaitGroup
	var inWin sync.WaitGroup
	released := make(chan struct{})
	for qi := 0; qi < nq; qi++ {
		a := &qAnswer{}
		answers[qi] = a
		kind := r.Intn(6)
		var oldEv string
		if pre > 0 {
			oldEv = (*events)[r.Intn(pre)]
		}
		oldV := uint64(0)
		if pre > 0 {
			oldV = uint64(r.Intn(pre))
		}
		i, j := uint64(0), uint64(0)
		if pre > 0 {
			i, j = uint64(r.Intn(pre)), uint64(r.Intn(pre+k))
			if i > j {
				i, j = j, i
			}
		}
		inflight := names[r.Intn(k)]
		wg.Add(1)
		inWin.Add(1)
		go func() {
			defer wg.Done()
			fin := false
			defer func() {
				if !fin {
					inWin.Done()
				}
			}()
			run := func(f func() error) {
				err := Call(nd, f)
				if err != nil && len(err.Error()) > 6 && err.Error()[:6] == "PANIC:" {
					a.pan = err.Error()
				} else {
					a.err = err
				}
			}
			switch {
			case kind == 0 && pre > 0:
				a.Kind, a.Arg, a.digest = "member-old", oldEv, EventDigest([]byte(oldEv))
				run(func() (e error) { a.mp, e = nd.N.QueryMembership([]byte(oldEv)); return })
			case kind == 1 && pre > 0:
				a.Kind, a.Arg, a.digest = "digest-at-version", fmt.Sprintf("%s@%d", (*events)[oldV], oldV+uint64(r.Intn(pre-int(oldV)))), EventDigest([]byte((*events)[oldV]))
				q := oldV + uint64(r.Intn(pre-int(oldV)))
				run(func() (e error) {
					a.mp, e = nd.N.QueryDigestMembershipConsistency(hashing.Digest(a.digest), q)
					return
				})
			case kind == 2 && pre > 0:
				a.Kind, a.Arg = "consistency", fmt.Sprintf("(%d,%d)", i, j)
				run(func() (e error) { a.ip, e = nd.N.QueryConsistency(i, j); return })
			case kind == 5 && pre > 0:
				// the frontier: the end of the range is the version right after the in-flight bulk (not issued
				// whichever side wins) or the last in-flight one
				jf := uint64(pre + k - 1 + r.Intn(3))
				a.Kind, a.Arg = "consistency-at-frontier", fmt.Sprintf("(%d,%d)", i, jf)
				run(func() (e error) { a.ip, e = nd.N.QueryConsistency(i, jf); return })
			case kind == 3 && pre > 0:
				q := uint64(pre + r.Intn(k)) // a version of the in-flight bulk
				a.Kind, a.Arg, a.digest = "member-old-at-inflight-version", fmt.Sprintf("%s@%d", oldEv, q), EventDigest([]byte(oldEv))
				run(func() (e error) {
					a.mp, e = nd.N.QueryMembershipConsistency([]byte(oldEv), q)
					return
				})
			default:
				a.Kind, a.Arg, a.digest = "member-inflight", inflight, EventDigest([]byte(inflight))
				run(func() (e error) { a.mp, e = nd.N.QueryMembership([]byte(inflight)); return })
			}
			select {
			case <-released:
			default:
				a.InWin = true
			}
			fin = true
			inWin.Done()
		}()
	}
	// give the queries time to run inside the window (those that block on a lock stay pending)
	waitCh := make(chan struct{})
	go func() { inWin.Wait(); close(waitCh) }()
	select {
	case <-waitCh:
	case <-time.After(400 * time.Millisecond):
	}
	close(released)
	close(release)
	var ar addRes
	select {
	case ar = <-addDone:
	case <-time.After(30 * time.Second):
		c.Inconclusive(fmt.Sprintf("%s: blocked insertion did not finish after release", cs.ID))
		return false
	}
	qdone := make(chan struct{})
	go func() { wg.Wait(); close(qdone) }()
	select {
	case <-qdone:
	case <-time.After(30 * time.Second):
		c.Violation("C10:query-hangs", fmt.Sprintf("%s: a query issued during an insertion did not return within 30 s after the insertion finished", cs.ID), cs)
		return false
	}
	nd.Store.SetHook(nil)
	if ar.err != nil || len(ar.s) != k {
		c.Violation("C10:insert-failed", fmt.Sprintf("%s: the in-flight insertion failed: %v", cs.ID, ar.err), cs)
		return false
	}
	*snaps = append(*snaps, ar.s...)
	*events = append(*events, names...)
	post := uint64(len(*snaps))
	// classify
	for _, a := range answers {
		switch {
		case a.pan != "":
			a.Outcome, a.Detail = "internal-failure", a.pan
		case a.err != nil:
			a.Outcome, a.Detail = "clean-error", a.err.Error()
		case a.ip != nil:
			if a.ip.End >= post || a.ip.Start > a.ip.End {
				a.Outcome, a.Detail = "mixed", "proof names versions that were never issued"
			} else if a.ip.Verify((*snaps)[a.ip.Start], (*snaps)[a.ip.End]) {
				a.Outcome = "verified"
			} else {
				a.Outcome, a.Detail = "mixed", fmt.Sprintf("incremental proof (%d,%d) verifies against neither", a.ip.Start, a.ip.End)
			}
		case a.mp != nil:
			m := a.mp
			if m.CurrentVersion >= post || m.QueryVersion >= post && m.QueryVersion != m.CurrentVersion {
				// a query version beyond current is legal input for *Consistency queries (clamped by the server)
			}
			if m.CurrentVersion >= post {
				a.Outcome, a.Detail = "mixed", fmt.Sprintf("answer names current version %d, never issued", m.CurrentVersion)
				break
			}
			if !m.Exists {
				// an absence answer is consistent only with a state that does not hold the event
				final := -1
				for v, e := range *events {
					if e == a.Arg {
						final = v
					}
				}
				if final >= 0 && uint64(final) <= m.CurrentVersion {
					a.Outcome, a.Detail = "mixed", fmt.Sprintf("event sits at version %d but is reported absent at current version %d", final, m.CurrentVersion)
				} else {
					a.Outcome = "verified"
				}
				break
			}
			qv := m.QueryVersion
			if qv > m.CurrentVersion {
				qv = m.CurrentVersion
			}
			snap := &balloon.Snapshot{HistoryDigest: (*snaps)[qv].HistoryDigest, HyperDigest: (*snaps)[m.CurrentVersion].HyperDigest, Version: qv}
			var ok bool
			mm := *m
			mm.QueryVersion = qv
			pan, msg := lib.Recover(func() { ok = mm.DigestVerify(hashing.Digest(a.digest), snap) })
			if ok {
				a.Outcome = "verified"
			} else {
				a.Outcome, a.Detail = "mixed", fmt.Sprintf("membership answer (actual=%d query=%d current=%d) verifies against none of the snapshots it names %s", m.ActualVersion, m.QueryVersion, m.CurrentVersion, msg)
				_ = pan
			}
		}
		c.Count("answers:"+a.Outcome, 1)
		if a.InWin {
			c.Count("answers_returned_inside_window", 1)
		} else {
			c.Count("answers_returned_after_release", 1)
		}
		c.Seen("query_kinds", a.Kind)
		cs.Answers = append(cs.Answers, *a)
		switch a.Outcome {
		case "internal-failure":
			c.Violation("C10:internal-failure:"+a.Kind, fmt.Sprintf("%s: %s query (%s) issued between computing and persisting an insertion failed internally: %s", cs.ID, a.Kind, a.Arg, a.Detail), cs)
		case "mixed":
			c.Violation("C10:mixed-state:"+a.Kind, fmt.Sprintf("%s: %s query (%s) issued during an insertion: %s", cs.ID, a.Kind, a.Arg, a.Detail), cs)
		}
	}
	return true
}

func RunC10(c *lib.Ctx) {
	c.Rule = "case = one window: a single real RaftNode whose injected store blocks the apply path exactly between balloon.AddBulk and the storage write of one bulk (sizes 1-200, positions incl. powers of two) while 8-24 concurrent queries (membership of old events at current and older versions and at in-flight versions, membership of in-flight events, consistency pairs reaching into the in-flight range and to the frontier version after it) run through RaftNode.Query*; after release every answer is classified against the snapshots issued for the versions it names: verified / clean error / internal failure (panic) / mixed state; second pass: unblocked concurrent public-API workload under the race detector; non-trivial = window with >= 4 answers returned; distinct by (prefix size class, bulk size, outcome set)."
	c.Assume = []string{"blocking happens in the store wrapper, outside every QED lock the unchanged code holds at that point", "race detector observes only executed interleavings"}
	nNodes := c.Q(3, 12)
	winPer := c.Q(10, 50)
	r0 := c.Rand("windows")
	seeds := make([]uint64, nNodes)
	for i := range seeds {
		seeds[i] = r0.Uint64()
	}
	parallelN(nNodes, 3, func(ni int) {
		r := lib.NewRand(seeds[ni])
		dir := c.Dir(fmt.Sprintf("node%d", ni))
		lc, err := bringUp(dir, 1, nil)
		defer lc.CloseAll()
		if err != nil {
			c.Inconclusive("node start failed: " + err.Error())
			return
		}
		nd := lc.Nodes["n0"]
		var events []string
		var snaps []*balloon.Snapshot
		// a prefix
		addPlain := func(k int) bool {
			evs := make([][]byte, k)
			names := make([]string, k)
			for i := range evs {
				names[i] = fmt.Sprintf("n%d-p%d-%d", ni, len(snaps), i)
				evs[i] = []byte(names[i])
			}
			s, err := nd.N.AddBulk(evs)
			if err != nil {
				return false
			}
			snaps = append(snaps, s...)
			events = append(events, names...)
			return true
		}
		if !addPlain(r.Range(3, 30)) {
			c.Inconclusive("prefix insertion failed")
			return
		}
		for w := 0; w < winPer; w++ {
			// steer some windows onto power-of-two boundaries
			if r.Intn(3) == 0 {
				next := 1
				for next <= len(snaps) {
					next <<= 1
				}
				if gap := next - len(snaps) - r.Intn(2); gap > 0 && gap < 64 {
					addPlain(gap)
				}
			} else if r.Intn(2) == 0 {
				addPlain(r.Range(1, 9))
			}
			cs := &c10case{ID: fmt.Sprintf("n%d-w%d", ni, w), Prefix: len(snaps), Bulk: []int{1, 1, 2, 3, 8, 20, 64, 200}[r.Intn(8)]}
			if c.Only != "" && c.Only != cs.ID {
				continue
			}
			// answers obtained BEFORE this window's insertion must still verify AFTER it (an answer handed to a
			// client must not change when the log grows: it would mix state from before and after an insertion)
			type held struct {
				mp   *balloon.MembershipProof
				ip   *balloon.IncrementalProof
				d    []byte
				json []byte
				what string
			}
			var helds []held
			for k := 0; k < 6 && len(snaps) > 1; k++ {
				e := r.Intn(len(snaps))
				q := e + r.Intn(len(snaps)-e)
				d := EventDigest([]byte(events[e]))
				if mp, err := nd.N.QueryDigestMembershipConsistency(hashing.Digest(d), uint64(q)); err == nil {
					js, _ := json.Marshal(protocol.ToMembershipResult(nil, mp))
					helds = append(helds, held{mp: mp, d: d, json: js, what: fmt.Sprintf("membership(event@%d, version %d)", e, q)})
				}
				if ip, err := nd.N.QueryConsistency(uint64(e), uint64(q)); err == nil {
					js, _ := json.Marshal(protocol.ToIncrementalResponse(ip))
					helds = append(helds, held{ip: ip, json: js, what: fmt.Sprintf("consistency(%d,%d)", e, q)})
				}
			}
			if !runWindow(c, nd, cs, r, &events, &snaps, c.Q(12, 24)) {
				return
			}
			for _, h := range helds {
				var ok bool
				var js []byte
				if h.mp != nil {
					snap := &balloon.Snapshot{HistoryDigest: snaps[h.mp.QueryVersion].HistoryDigest, HyperDigest: snaps[h.mp.CurrentVersion].HyperDigest, Version: h.mp.QueryVersion}
					lib.Recover(func() { ok = h.mp.DigestVerify(hashing.Digest(h.d), snap) })
					js, _ = json.Marshal(protocol.ToMembershipResult(nil, h.mp))
				} else {
					lib.Recover(func() { ok = h.ip.Verify(snaps[h.ip.Start], snaps[h.ip.End]) })
					js, _ = json.Marshal(protocol.ToIncrementalResponse(h.ip))
				}
				c.Count("held_answers_rechecked_after_insertion", 1)
				if !ok || !bytes.Equal(js, h.json) {
					c.Violation("C10:answer-changed-after-later-insertion", fmt.Sprintf("%s: the answer to %s, obtained before an insertion, no longer verifies / serialises differently after it (verifies=%v)", cs.ID, h.what, ok), cs)
					break
				}
			}
			outs := map[string]bool{}
			for _, a := range cs.Answers {
				outs[a.Outcome] = true
			}
			c.Case(fmt.Sprintf("pre%d/bulk%d/%v", bitlenInt(cs.Prefix), cs.Bulk, keys(outs)), len(cs.Answers) >= 4)
			if ni == 0 && w < 2 {
				cs2 := *cs
				if len(cs2.Answers) > 6 {
					cs2.Answers = cs2.Answers[:6]
				}
				c.Sample(cs2)
			}
		}
	})
	runRaceDiag(c, "C10", "c10-race", c.Q(1, 4))
	runRaceDiag(c, "C10", "c10-race-cluster", c.Q(1, 3))
}

func bitlenInt(n int) int {
	b := 0
	for ; n > 0; n >>= 1 {
		b++
	}
	return b
}

func keys(m map[string]bool) []string {
	var out []string
	for k := range m {
		out = append(out, k)
	}
	sortStrings(out)
	return out
}
