package gossipp

import "qedverif/lib"

// Workers are child-process entry points (qv worker <name> args...).
var Workers = map[string]func(args []string) int{}

func RunC17(c *lib.Ctx) { c.Inconclusive("C17: check not built yet") }

func RunC18(c *lib.Ctx) { c.Inconclusive("C18: check not built yet") }

func RunC19(c *lib.Ctx) { c.Inconclusive("C19: check not built yet") }
