package gossipp

// Workers are child-process entry points (qv worker <name> args...).
var Workers = map[string]func(args []string) int{}
