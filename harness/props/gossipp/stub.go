package gossipp

import "qedverif/lib"

// Workers are child-process entry points (qv worker <name> args...).
var Workers = map[string]func(args []string) int{}

func RunC19(c *lib.Ctx) { c.Inconclusive("C19: check not built yet") }
