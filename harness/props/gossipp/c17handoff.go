package gossipp

import (
	"fmt"
	"time"

	"qedverif/lib"
	"qedverif/props/cluster"
)

// c17Handoff observes the first clause of C17 on a real RaftNode: every snapshot produced by an insertion
// is handed to the channel the gossip sender reads from, exactly once, whatever the state of that channel.
// The channel is small and its consumer slow, so bulks larger than the free room have to wait for it.
func c17Handoff(c *lib.Ctx) {
	if c.Only != "" && c.Only != "handoff" {
		return
	}
	r := c.Rand("handoff")
	for rep := 0; rep < c.Q(2, 8); rep++ {
		capa := r.Pick(1, 4, 16, 64)
		nd, err := cluster.StartSingleCfg(cluster.NodeCfg{Dir: c.Dir(fmt.Sprintf("handoff%d", rep)), SnapChanCap: capa, SnapConsumerDelay: 200 * time.Microsecond})
		if err != nil {
			c.Inconclusive("handoff: node did not start: " + err.Error())
			return
		}
		issued := map[uint64]bool{}
		seq := 0
		add := func(k int) bool {
			evs := make([][]byte, k)
			for i := range evs {
				seq++
				evs[i] = []byte(fmt.Sprintf("handoff-%d-%d", rep, seq))
			}
			ss, err := nd.N.AddBulk(evs)
			if err != nil {
				return false
			}
			for _, s := range ss {
				issued[s.Version] = true
			}
			return true
		}
		ok := true
		for i := 0; i < 10 && ok; i++ {
			ok = add(1)
		}
		for _, k := range []int{8, capa + 1, 300, r.Range(2, 40), 1} {
			if ok {
				ok = add(k)
			}
		}
		if !ok {
			nd.Close()
			c.Inconclusive("handoff: an insertion failed")
			return
		}
		// logical quiescence: all insertions returned; wait until the consumer saw as many as were issued
		deadline := time.Now().Add(20 * time.Second)
		for time.Now().Before(deadline) && len(nd.HandedOff()) < len(issued) {
			time.Sleep(20 * time.Millisecond)
		}
		got := map[uint64]int{}
		for _, v := range nd.HandedOff() {
			got[v]++
		}
		nd.Close()
		missing, dup := 0, 0
		for v := range issued {
			switch {
			case got[v] == 0:
				missing++
			case got[v] > 1:
				dup++
			}
		}
		c.Count("handoff_snapshots_issued", int64(len(issued)))
		c.Count("handoff_snapshots_seen_on_channel", int64(len(got)))
		detail := map[string]interface{}{"id": "handoff", "channel_capacity": capa, "issued": len(issued), "handed_off": len(got)}
		if missing > 0 {
			c.Violation("C17:handoff:snapshot-never-handed-to-the-sender", fmt.Sprintf("%d of %d snapshots issued by insertions never reached the channel the sender reads (capacity %d, slow consumer)", missing, len(issued), capa), detail)
		}
		if dup > 0 {
			c.Violation("C17:handoff:snapshot-handed-twice", fmt.Sprintf("%d snapshots were handed to the sender more than once", dup), detail)
		}
		c.Case(fmt.Sprintf("handoff/cap%d", capa), len(issued) > 20)
	}
}
