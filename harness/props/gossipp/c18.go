package gossipp

// C18: gossip is bounded (TTL lowered per hop, exhausted messages never sent on), processed at most once per
// agent and batch, never self-addressed, and the topology stays consistent under concurrent joins/leaves/sends.
//
// Monitors:
//  (a) c18net  : real agents on 127.0.0.1 (child process). A tee between agent.In and the real BatchProcessor
//                records every delivered message with its TTL; recording task factories + the real
//                SimpleTasksManager record task creation and execution. Oracle: arithmetic on received TTLs.
//  (b) dedup   : one agent's real BatchProcessor fed the same batches r times from p goroutines in shuffled
//                orders through the real In bus. Oracle: a counter per (factory, batch).
//  (c) routing : VerifRoute against VerifTopology; (c1) sequential event streams with a set model of the
//                membership, (c2) concurrent mutators and routers in child processes (plain and -race build).

import (
	"context"
	"encoding/json"
	"fmt"
	"io/ioutil"
	"os"
	"path/filepath"
	"runtime/debug"
	"sort"
	"strconv"
	"strings"
	"sync"
	"sync/atomic"
	"time"

	"github.com/bbva/qed/gossip"
	"github.com/bbva/qed/protocol"
	"github.com/prometheus/client_golang/prometheus"

	"qedverif/lib"
)

// =====================================================================================
// recording pieces shared by (a) and (b)
// =====================================================================================

type c18recv struct {
	Agent string `json:"agent"`
	Batch uint64 `json:"batch"`
	TTL   int    `json:"ttl"`
	Seq   int    `json:"seq"` // order in which this agent's processor saw its messages
}

type c18rec struct {
	mu         sync.Mutex
	receptions []c18recv
	created    map[string]int // agent|factory|batch -> task creations
	executed   map[string]int // agent|factory|batch -> task executions
	undecoded  int
	nrecv      int64
	ncreated   int64
	nexecuted  int64
}

func newC18rec() *c18rec {
	return &c18rec{created: map[string]int{}, executed: map[string]int{}}
}

func c18key(agent string, factory int, batch uint64) string {
	return fmt.Sprintf("%s|f%d|%d", agent, factory, batch)
}

// c18batchPayload encodes a batch whose identity is carried in the Version of its first snapshot.
func c18batchPayload(id uint64, nsnaps int, r *lib.Rand) []byte {
	b := &protocol.BatchSnapshots{}
	for i := 0; i < nsnaps; i++ {
		b.Snapshots = append(b.Snapshots, &protocol.SignedSnapshot{
			Snapshot: &protocol.Snapshot{
				EventDigest:   r.Bytes(32),
				HistoryDigest: r.Bytes(32),
				HyperDigest:   r.Bytes(32),
				Version:       id + uint64(i)<<40,
			},
			Signature: r.Bytes(64),
		})
	}
	buf, _ := b.Encode()
	return buf
}

func c18batchID(payload []byte) (uint64, bool) {
	var b struct {
		Snapshots []struct {
			Snapshot struct{ Version uint64 }
		}
	}
	if err := json.Unmarshal(payload, &b); err != nil || len(b.Snapshots) == 0 {
		return 0, false
	}
	return b.Snapshots[0].Snapshot.Version, true
}

// c18factory is a gossip.TaskFactory that records creations and executions.
type c18factory struct {
	agent string
	idx   int
	rec   *c18rec
}

func (f *c18factory) Metrics() []prometheus.Collector { return nil }

func (f *c18factory) New(ctx context.Context) gossip.Task {
	var id uint64
	if b, ok := ctx.Value("batch").(*protocol.BatchSnapshots); ok && b != nil && len(b.Snapshots) > 0 && b.Snapshots[0] != nil && b.Snapshots[0].Snapshot != nil {
		id = b.Snapshots[0].Snapshot.Version
	}
	k := c18key(f.agent, f.idx, id)
	f.rec.mu.Lock()
	f.rec.created[k]++
	f.rec.mu.Unlock()
	atomic.AddInt64(&f.rec.ncreated, 1)
	return func() error {
		f.rec.mu.Lock()
		f.rec.executed[k]++
		f.rec.mu.Unlock()
		atomic.AddInt64(&f.rec.nexecuted, 1)
		return nil
	}
}

// c18tee sits between the agent's In bus and the real BatchProcessor: it records each delivered message
// (TTL as delivered, before the agent's Send mutates the shared *Message) and hands it to the processor through
// an unbuffered channel, so "the processor took message k+1" implies "it finished message k".
type c18tee struct {
	agent string
	bp    *gossip.BatchProcessor
	rec   *c18rec
	inner chan *gossip.Message
	quit  chan struct{}
	seq   int
}

func newC18tee(agent string, bp *gossip.BatchProcessor, rec *c18rec) *c18tee {
	return &c18tee{agent: agent, bp: bp, rec: rec, inner: make(chan *gossip.Message), quit: make(chan struct{})}
}

func (t *c18tee) Subscribe(id int, ch <-chan *gossip.Message) {
	t.bp.Subscribe(id, t.inner)
	go func() {
		for {
			select {
			case m := <-ch:
				if m == nil {
					continue
				}
				bid, ok := c18batchID(m.Payload)
				t.rec.mu.Lock()
				if ok {
					t.rec.receptions = append(t.rec.receptions, c18recv{Agent: t.agent, Batch: bid, TTL: m.TTL, Seq: t.seq})
					t.seq++
				} else {
					t.rec.undecoded++
				}
				t.rec.mu.Unlock()
				atomic.AddInt64(&t.rec.nrecv, 1)
				select {
				case t.inner <- m:
				case <-t.quit:
					return
				}
			case <-t.quit:
				return
			}
		}
	}()
}

func (t *c18tee) stop() {
	close(t.quit)
	t.bp.Stop()
}

// =====================================================================================
// (b) dedup monitor, in process
// =====================================================================================

type c18dedupPlan struct {
	ID        string `json:"id"`
	Batches   int    `json:"batches"`
	Repeats   int    `json:"repeats"`
	Peers     int    `json:"peers"`
	Factories int    `json:"factories"`
	Snaps     int    `json:"snaps_per_batch"`
	Order     string `json:"order"` // shuffled | grouped | interleaved
	Seed      uint64 `json:"seed"`
	SlowCache int    `json:"slow_cache_us"` // > 0: the agent's cache answers Get after this many microseconds (widens the window between "seen?" and "mark seen")
}

// c18slowCache delays Get: a processor that handles one message at a time is unaffected, one that lets two
// copies of a batch run the "seen? / mark seen" pair concurrently lets both through.
type c18slowCache struct {
	gossip.Cache
	d time.Duration
}

func (s *c18slowCache) Get(key []byte) ([]byte, error) {
	v, err := s.Cache.Get(key)
	time.Sleep(s.d) // after the lookup: the answer is already decided, the caller acts on it later
	return v, err
}

var c18portCounter int64

func c18unstartedAgent(name, role string) (*gossip.Agent, error) {
	conf := gossip.DefaultConfig()
	conf.NodeName = name
	conf.Role = role
	conf.BindAddr = fmt.Sprintf("127.0.0.1:%d", 22000+atomic.AddInt64(&c18portCounter, 1)%1000) // never bound
	return gossip.NewAgentFromConfig(conf)
}

func c18runDedup(c *lib.Ctx, p *c18dedupPlan) {
	r := lib.NewRand(p.Seed)
	agent, err := c18unstartedAgent("dedup-"+p.ID, "auditor")
	if err != nil {
		c.Inconclusive(p.ID + ": agent: " + err.Error())
		return
	}
	if agent.Cache == nil {
		c.Inconclusive(p.ID + ": agent built from a config has no cache")
		return
	}
	if p.SlowCache > 0 {
		agent.Cache = &c18slowCache{Cache: agent.Cache, d: time.Duration(p.SlowCache) * time.Microsecond}
	}
	rec := newC18rec()
	tm := gossip.NewSimpleTasksManager(5*time.Millisecond, 64)
	agent.Tasks = tm
	tm.Start()
	defer tm.Stop()
	var tfs []gossip.TaskFactory
	for i := 0; i < p.Factories; i++ {
		tfs = append(tfs, &c18factory{agent: "a", idx: i, rec: rec})
	}
	bp := gossip.NewBatchProcessor(agent, tfs, nil)
	tee := newC18tee("a", bp, rec)
	agent.In.Subscribe(gossip.BatchMessageType, tee, 255)
	defer tee.stop()

	base := uint64(1000)
	payloads := make([][]byte, p.Batches)
	for i := range payloads {
		payloads[i] = c18batchPayload(base+uint64(i), p.Snaps, r)
	}
	// deliveries: Batches*Repeats messages, dealt to Peers goroutines
	var deliveries []int
	switch p.Order {
	case "grouped":
		for i := 0; i < p.Batches; i++ {
			for k := 0; k < p.Repeats; k++ {
				deliveries = append(deliveries, i)
			}
		}
	case "interleaved":
		for k := 0; k < p.Repeats; k++ {
			for i := 0; i < p.Batches; i++ {
				deliveries = append(deliveries, i)
			}
		}
	default:
		for i := 0; i < p.Batches; i++ {
			for k := 0; k < p.Repeats; k++ {
				deliveries = append(deliveries, i)
			}
		}
		perm := r.Perm(len(deliveries))
		d2 := make([]int, len(deliveries))
		for i, j := range perm {
			d2[i] = deliveries[j]
		}
		deliveries = d2
	}
	ttls := make([]int, len(deliveries))
	for i := range ttls {
		ttls[i] = r.Pick(0, 1, 2, 5)
	}
	var wg sync.WaitGroup
	for q := 0; q < p.Peers; q++ {
		wg.Add(1)
		go func(q int) {
			defer wg.Done()
			for i := q; i < len(deliveries); i += p.Peers {
				// a fresh message object per delivery, as the network delegate does
				pl := append([]byte{}, payloads[deliveries[i]]...)
				_ = agent.In.Publish(&gossip.Message{Kind: gossip.BatchMessageType, TTL: ttls[i], Payload: pl})
			}
		}(q)
	}
	wg.Wait()
	total := int64(len(deliveries))
	t0 := time.Now()
	for atomic.LoadInt64(&rec.nrecv) < total && time.Since(t0) < 30*time.Second {
		time.Sleep(2 * time.Millisecond)
	}
	if atomic.LoadInt64(&rec.nrecv) < total {
		c.Inconclusive(fmt.Sprintf("%s: only %d of %d deliveries reached the processor", p.ID, rec.nrecv, total))
		return
	}
	// sentinel: once its tasks exist the processor has finished everything before it
	sentinel := base + uint64(p.Batches) + 7
	_ = agent.In.Publish(&gossip.Message{Kind: gossip.BatchMessageType, TTL: 1, Payload: c18batchPayload(sentinel, 1, r)})
	done := func() bool {
		rec.mu.Lock()
		defer rec.mu.Unlock()
		for f := 0; f < p.Factories; f++ {
			if rec.created[c18key("a", f, sentinel)] == 0 {
				return false
			}
		}
		return atomic.LoadInt64(&rec.nexecuted) >= atomic.LoadInt64(&rec.ncreated)
	}
	for !done() && time.Since(t0) < 40*time.Second {
		time.Sleep(2 * time.Millisecond)
	}
	if !done() {
		c.Inconclusive(p.ID + ": sentinel batch was not processed (watchdog)")
		return
	}
	// the sentinel only proves that everything before it is finished if messages are handled one at a time,
	// which is part of what is being checked: also wait until the task counters stand still
	quiet := 20*time.Millisecond + 10*time.Duration(p.SlowCache)*time.Microsecond
	for last, still := int64(-1), 0; still < 2 && time.Since(t0) < 60*time.Second; {
		time.Sleep(quiet)
		if n := atomic.LoadInt64(&rec.ncreated) + atomic.LoadInt64(&rec.nexecuted); n == last {
			still++
		} else {
			last, still = n, 0
		}
	}
	rec.mu.Lock()
	defer rec.mu.Unlock()
	zero := 0
	for i := 0; i < p.Batches; i++ {
		for f := 0; f < p.Factories; f++ {
			k := c18key("a", f, base+uint64(i))
			n, e := rec.created[k], rec.executed[k]
			if n > 1 || e > 1 {
				c.Violation("C18:once:processor-redelivery", fmt.Sprintf("case %s: batch %d delivered %d times from %d goroutines produced %d task creations / %d executions for factory %d",
					p.ID, i, p.Repeats, p.Peers, n, e, f), map[string]interface{}{"id": p.ID, "plan": p})
			}
			if n == 0 {
				zero++
			}
		}
	}
	c.Count("dedup_deliveries", total)
	c.Count("dedup_batches", int64(p.Batches))
	c.Count("dedup_task_creations", atomic.LoadInt64(&rec.ncreated))
	c.Count("dedup_task_executions", atomic.LoadInt64(&rec.nexecuted))
	if zero > 0 {
		c.Inconclusive(fmt.Sprintf("%s: %d (batch,factory) pairs got no task at all", p.ID, zero))
		return
	}
	c.Case(fmt.Sprintf("dedup/B=%d/r=%d/p=%d/f=%d/%s", p.Batches, p.Repeats, p.Peers, p.Factories, p.Order), p.Repeats > 1)
}

// =====================================================================================
// (c1) routing against a set model, sequential events / concurrent routers
// =====================================================================================

var c18roles = []string{"auditor", "monitor", "publisher", "server"}

type c18routePlan struct {
	ID     string `json:"id"`
	Steps  int    `json:"steps"`
	Routes int    `json:"routes_per_step"`
	Roles  int    `json:"roles"`
	Names  int    `json:"names_per_role"`
	Seed   uint64 `json:"seed"`
}

func c18peerName(role string, i int) string { return fmt.Sprintf("%s-%d", role, i) }
func c18roleOf(name string) string {
	if i := strings.LastIndex(name, "-"); i > 0 {
		return name[:i]
	}
	return name
}

func c18runRouteModel(c *lib.Ctx, p *c18routePlan) {
	r := lib.NewRand(p.Seed)
	selfRole := c18roles[r.Intn(p.Roles)]
	selfName := c18peerName(selfRole, 0)
	agent, err := c18unstartedAgent(selfName, selfRole)
	if err != nil {
		c.Inconclusive(p.ID + ": agent: " + err.Error())
		return
	}
	topo := agent.VerifTopology()
	present := map[string]bool{}
	knownRole := map[string]bool{}
	mk := func(name string) *gossip.Peer {
		return gossip.NewPeer(name, "127.0.0.1", uint16(23000+r.Intn(900)), c18roleOf(name))
	}
	// memberlist announces the local node too
	_ = topo.Update(mk(selfName))
	present[selfName] = true
	knownRole[selfRole] = true
	viol := func(key, what string, extra map[string]interface{}) {
		extra["id"] = p.ID
		extra["plan"] = p
		c.Violation(key, "case "+p.ID+": "+what, extra)
	}
	var routes, nonEmpty, maxDst int64
	for s := 0; s < p.Steps; s++ {
		role := c18roles[r.Intn(p.Roles)]
		name := c18peerName(role, r.Intn(p.Names))
		switch op := r.Intn(10); {
		case op < 5:
			_ = topo.Update(mk(name))
			present[name] = true
			knownRole[role] = true
			c.Count("topology_events_join_update", 1)
		case op < 9:
			if !knownRole[role] || name == selfName {
				continue
			}
			_ = topo.Delete(mk(name))
			delete(present, name)
			c.Count("topology_events_leave", 1)
		default:
			if present[name] {
				_ = topo.Update(mk(name)) // metadata refresh of a present peer
				c.Count("topology_events_join_update", 1)
			}
		}
		// sources: self (what Send uses), a present peer, an absent peer
		srcs := []*gossip.Peer{agent.Self}
		for n := range present {
			if n != selfName {
				srcs = append(srcs, mk(n))
				break
			}
		}
		srcs = append(srcs, mk("ghost-1"))
		var wg sync.WaitGroup
		var mu sync.Mutex
		for g := 0; g < 4; g++ {
			wg.Add(1)
			go func(g int) {
				defer wg.Done()
				for k := 0; k < p.Routes/4+1; k++ {
					src := srcs[(g+k)%len(srcs)]
					dst := agent.VerifRoute(src)
					atomic.AddInt64(&routes, 1)
					perRole := map[string]int{}
					for _, d := range dst {
						perRole[c18roleOf(d.Name)]++
						if d.Name == selfName {
							mu.Lock()
							viol("C18:self:route-contains-self", fmt.Sprintf("route(%s) of agent %s contains the agent itself", src.Name, selfName), map[string]interface{}{"step": s})
							mu.Unlock()
						}
						if !present[d.Name] {
							mu.Lock()
							viol("C18:view:route-to-absent-peer", fmt.Sprintf("route(%s) names %s which is not in the membership (left or never joined)", src.Name, d.Name), map[string]interface{}{"step": s})
							mu.Unlock()
						}
					}
					for role, n := range perRole {
						if n > 1 {
							mu.Lock()
							viol("C18:view:more-than-one-per-role", fmt.Sprintf("route(%s) names %d peers of role %s", src.Name, n, role), map[string]interface{}{"step": s})
							mu.Unlock()
						}
					}
					if len(dst) > 0 {
						atomic.AddInt64(&nonEmpty, 1)
					}
					if int64(len(dst)) > atomic.LoadInt64(&maxDst) {
						atomic.StoreInt64(&maxDst, int64(len(dst)))
					}
				}
			}(g)
		}
		wg.Wait()
	}
	c.Count("routing_calls_model", routes)
	c.Count("routing_calls_model_nonempty", nonEmpty)
	c.Case(fmt.Sprintf("route-model/roles=%d/names=%d/maxdst=%d", p.Roles, p.Names, maxDst), nonEmpty > 0)
}

// =====================================================================================
// (c2) concurrent mutators and routers: child worker c18topo
// =====================================================================================

type c18topoResult struct {
	Calls        int64             `json:"calls"`
	Events       int64             `json:"events"`
	NonEmpty     int64             `json:"non_empty"`
	Problems     []c17problem      `json:"problems,omitempty"`
	Panics       map[string]int    `json:"panics,omitempty"` // kind:frame -> count (recovered panics inside route)
	PanicSample  map[string]string `json:"panic_sample,omitempty"`
	UnknownRole  string            `json:"delete_unknown_role"` // outcome of the Delete probe
	RolesCreated int               `json:"roles_created"`
	Completed    bool              `json:"completed"`
}

func c18classifyStack(msg string, stack string) (kind, frame, top string) {
	switch {
	case strings.Contains(msg, "nil pointer dereference") || strings.Contains(msg, "invalid memory address"):
		kind = "nil-dereference"
	case strings.Contains(msg, "index out of range") || strings.Contains(msg, "slice bounds out of range"):
		kind = "index-out-of-range"
	default:
		kind = "panic"
	}
	for _, l := range strings.Split(stack, "\n") {
		if strings.HasPrefix(l, "\t") || !strings.Contains(l, "github.com/bbva/qed/") {
			continue
		}
		if k := strings.LastIndex(l, "("); k > 0 {
			sf := shortFrame(l[:k])
			if strings.HasPrefix(sf, "Agent.VerifRoute") {
				continue
			}
			if frame == "" {
				frame = sf
			}
			if top == "" && strings.HasPrefix(sf, "Topology.") {
				top = sf
			}
		}
	}
	return
}

func c18topoWorker(args []string) int {
	if len(args) < 5 {
		fmt.Fprintln(os.Stderr, "usage: c18topo <seed> <calls> <routers> <mutators> <out>")
		return 2
	}
	seed, _ := strconv.ParseUint(args[0], 10, 64)
	calls, _ := strconv.Atoi(args[1])
	routers, _ := strconv.Atoi(args[2])
	mutators, _ := strconv.Atoi(args[3])
	out := args[4]
	res := &c18topoResult{Panics: map[string]int{}, PanicSample: map[string]string{}}
	var mu sync.Mutex
	save := func() {
		mu.Lock()
		buf, _ := json.Marshal(res)
		mu.Unlock()
		ioutil.WriteFile(out+".tmp", buf, 0644)
		os.Rename(out+".tmp", out)
	}
	bad := func(key, what string) {
		mu.Lock()
		if len(res.Problems) < 20 {
			res.Problems = append(res.Problems, c17problem{key, what})
		}
		mu.Unlock()
	}
	selfName := c18peerName("auditor", 0)
	const epochs = 10 // fresh agent (empty topology) per epoch: the first join of each role writes the role map
	per := calls / routers / epochs
	var done, nonEmpty, events int64
	var topo *gossip.Topology
	for epoch := 0; epoch < epochs; epoch++ {
		agent, err := c18unstartedAgent(selfName, "auditor")
		if err != nil {
			fmt.Fprintln(os.Stderr, err)
			return 2
		}
		topo = agent.VerifTopology()
		_ = topo.Update(gossip.NewPeer(selfName, "127.0.0.1", 23000, "auditor"))
		// the union of peers ever present is fixed up front: every (role, index) a mutator may announce
		roles := append([]string{}, c18roles...)
		for i := 0; i < 8; i++ {
			roles = append(roles, fmt.Sprintf("extra%d", i)) // roles that appear later (first join of a role writes the map)
		}
		const namesPerRole = 6
		ever := map[string]bool{}
		for _, role := range roles {
			for i := 0; i < namesPerRole; i++ {
				ever[c18peerName(role, i)] = true
			}
		}
		var stop int32
		var wg, mwg sync.WaitGroup
		for m := 0; m < mutators; m++ {
			mwg.Add(1)
			go func(m int) {
				defer mwg.Done()
				r := lib.NewRand(seed*31 + uint64(m) + uint64(epoch)*1009)
				// each mutator owns a slice of the name space (memberlist serialises events per node)
				nroles := len(c18roles)
				known := map[string]bool{"auditor": true}
				for k := 0; atomic.LoadInt32(&stop) == 0; k++ {
					if k%20000 == 19999 && nroles < len(roles) {
						nroles++ // a new role shows up
					}
					role := roles[r.Intn(nroles)]
					idx := r.Intn(namesPerRole)
					if mutators <= namesPerRole {
						// each mutator owns the names with idx % mutators == m
						idx = r.Intn(namesPerRole/mutators)*mutators + m
					}
					name := c18peerName(role, idx)
					if name == selfName {
						continue
					}
					peer := gossip.NewPeer(name, "127.0.0.1", uint16(23001+idx), role)
					if r.Intn(2) == 0 {
						_ = topo.Update(peer)
						known[role] = true
					} else if known[role] {
						_ = topo.Delete(peer)
					} else {
						continue
					}
					atomic.AddInt64(&events, 1)
					if k%64 == 0 {
						time.Sleep(time.Microsecond)
					}
				}
			}(m)
		}
		for g := 0; g < routers; g++ {
			wg.Add(1)
			go func(g int) {
				defer wg.Done()
				for k := 0; k < per; k++ {
					var dstNames []string
					func() {
						defer func() {
							if rv := recover(); rv != nil {
								kind, frame, top := c18classifyStack(fmt.Sprint(rv), string(debug.Stack()))
								where := frame
								if top != "" {
									where = top
								}
								key := kind + ":" + where
								mu.Lock()
								res.Panics[key]++
								if _, ok := res.PanicSample[key]; !ok {
									st := string(debug.Stack())
									if len(st) > 3000 {
										st = st[:3000]
									}
									res.PanicSample[key] = fmt.Sprint(rv) + "\n" + st
								}
								mu.Unlock()
							}
						}()
						for _, d := range agent.VerifRoute(agent.Self) {
							dstNames = append(dstNames, d.Name)
						}
					}()
					atomic.AddInt64(&done, 1)
					if len(dstNames) > 0 {
						atomic.AddInt64(&nonEmpty, 1)
					}
					perRole := map[string]int{}
					for _, n := range dstNames {
						perRole[c18roleOf(n)]++
						if n == selfName {
							bad("C18:self:route-contains-self", "concurrent run: route(self) contains the agent itself")
						}
						if !ever[n] {
							bad("C18:view:route-to-never-present-peer", "concurrent run: route names "+n+" which never was in the topology")
						}
					}
					for role, n := range perRole {
						if n > 1 {
							bad("C18:view:more-than-one-per-role", fmt.Sprintf("concurrent run: route names %d peers of role %s", n, role))
						}
					}
					if k%5000 == 0 {
						mu.Lock()
						res.Calls = atomic.LoadInt64(&done)
						res.Events = atomic.LoadInt64(&events)
						res.NonEmpty = atomic.LoadInt64(&nonEmpty)
						mu.Unlock()
						save()
					}
				}
			}(g)
		}
		wg.Wait()
		atomic.StoreInt32(&stop, 1)
		mwg.Wait()
	}
	mu.Lock()
	res.Calls = done
	res.Events = events
	res.NonEmpty = nonEmpty
	mu.Unlock()
	// probe (information): a leave of a peer whose role the topology has never seen
	panicked, msg := lib.Recover(func() { _ = topo.Delete(gossip.NewPeer("stranger-1", "127.0.0.1", 23999, "never-seen-role")) })
	mu.Lock()
	if panicked {
		res.UnknownRole = "panics: " + msg
	} else {
		res.UnknownRole = "ok"
	}
	res.Completed = true
	mu.Unlock()
	save()
	return 0
}

// c18evalTopoChild turns a topo child's outcome into verdicts. Returns the number of route calls observed.
func c18evalTopoChild(c *lib.Ctx, label string, cr childResult, out string) {
	if cr.StartErr != "" {
		c.Inconclusive("C18 " + label + ": cannot start child: " + cr.StartErr)
		return
	}
	var res c18topoResult
	if buf, err := ioutil.ReadFile(out); err == nil {
		_ = json.Unmarshal(buf, &res)
	}
	c.Count("routing_calls_concurrent", res.Calls)
	c.Count("routing_calls_concurrent_nonempty", res.NonEmpty)
	c.Count("topology_events_concurrent", res.Events)
	for _, pr := range res.Problems {
		c.Violation(pr.Key, label+": "+pr.What, map[string]interface{}{"id": "topo", "child": label})
	}
	for k, n := range res.Panics {
		c.Count("route_panics_recovered", int64(n))
		c.Violation("C18:crash:"+k, fmt.Sprintf("%s: routing panicked %d times while joins/leaves were applied concurrently (in production Agent.Send runs on an unprotected goroutine: the process dies): %s", label, n, k),
			map[string]interface{}{"id": "topo", "child": label, "stack": res.PanicSample[k]})
	}
	if res.UnknownRole != "" {
		c.Extra("probe_delete_peer_of_unknown_role", res.UnknownRole+" (information: memberlist announces a leave only after a join, which creates the role list)")
	}
	if !res.Completed {
		if ci := parseCrash(cr.Stderr); ci != nil {
			where := ci.Frame
			if ci.Top != "" {
				where = ci.Top
			}
			c.Count("child_crashes", 1)
			if strings.HasPrefix(where, "Topology.") || strings.HasPrefix(where, "PeerList.") || strings.HasPrefix(where, "Agent.route") {
				c.Violation("C18:crash:"+ci.Kind+":"+where, fmt.Sprintf("%s: the process died with %q in %s while routing ran concurrently with joins/leaves (after %d routing calls, %d events)", label, ci.Kind, where, res.Calls, res.Events),
					map[string]interface{}{"id": "topo", "child": label, "stderr": ci.Sample})
			} else {
				c.Inconclusive(fmt.Sprintf("C18 %s: child crashed outside topology code: %s in %s", label, ci.Kind, where))
			}
		} else if cr.TimedOut {
			c.Inconclusive("C18 " + label + ": child hit the watchdog")
		} else {
			c.Inconclusive(fmt.Sprintf("C18 %s: child ended (exit %d) without completing: %s", label, cr.ExitCode, tailFile(cr.Stderr, 4)))
		}
	}
	if cr.RaceBuild {
		c18raceVerdicts(c, label, cr)
	}
	c.Case("route-concurrent/"+label, res.Calls > 0 && res.Events > 0 && res.NonEmpty > 0)
}

// c18raceVerdicts: data races whose two accesses are both under topology code refute the consistency clause.
func c18raceVerdicts(c *lib.Ctx, label string, cr childResult) {
	reports := parseRaceLogs(append(append([]string{}, cr.RaceLogs...), cr.Stderr))
	c.Count("race_reports_total", int64(len(reports)))
	other := map[string]int{}
	for _, rp := range reports {
		topoA := rp.TopA != "" || strings.HasPrefix(rp.A, "PeerList.") || strings.HasPrefix(rp.A, "Topology.")
		topoB := rp.TopB != "" || strings.HasPrefix(rp.B, "PeerList.") || strings.HasPrefix(rp.B, "Topology.")
		if topoA && topoB {
			c.Seen("topology_race_pairs", rp.Pair)
			c.Seen("topology_race_inner_frames", rp.A+" vs "+rp.B)
			if rp.ViaA != "" && rp.ViaB != "" {
				c.Seen("topology_race_entry_points", rp.ViaA+" vs "+rp.ViaB)
			}
			c.Count("race_reports_topology", 1)
			c.Violation("C18:race:"+rp.Pair, fmt.Sprintf("%s: data race between %s and %s on the agent's topology (inner frames %s / %s)", label, strings.Split(rp.Pair, "/")[0], strings.Split(rp.Pair, "/")[1], rp.A, rp.B),
				map[string]interface{}{"id": "topo", "child": label, "report": rp.Sample})
		} else {
			k := rp.A + " vs " + rp.B
			other[k]++
			c.Seen("other_race_pairs", k)
		}
	}
	if len(other) > 0 {
		c.Extra("races_outside_topology_"+label, other)
	}
}

// =====================================================================================
// (a) network monitor: child worker c18net
// =====================================================================================

type c18agentSpec struct {
	Name string `json:"name"`
	Role string `json:"role"`
	Port int    `json:"port"`
}

type c18inject struct {
	Batch uint64 `json:"batch"`
	At    int    `json:"at"`
	TTL   int    `json:"ttl"`
	Snaps int    `json:"snaps"`
}

type c18netPlan struct {
	ID          string         `json:"id"`
	Seed        uint64         `json:"seed"`
	Agents      []c18agentSpec `json:"agents"`
	Rounds      [][]c18inject  `json:"rounds"`
	ChurnCycles int            `json:"churn_cycles"`
	ChurnPorts  []int          `json:"churn_ports"`
	ChurnRoles  []string       `json:"churn_roles"`
	Factories   int            `json:"factories"`
	QuietMs     int            `json:"quiet_ms"`
	ChurnGapMs  [2]int         `json:"churn_gap_ms"` // pause between injections of each of the 2 injectors during churn
}

type c18netResult struct {
	Setup         string            `json:"setup,omitempty"`
	Phase         string            `json:"phase"`
	Receptions    []c18recv         `json:"receptions"`
	Created       map[string]int    `json:"created"`
	Executed      map[string]int    `json:"executed"`
	Undecoded     int               `json:"undecoded"`
	QuietReached  []bool            `json:"quiet_reached"`
	ChurnInjected []c18inject       `json:"churn_injected"`
	ChurnJoins    int               `json:"churn_joins"`
	ChurnLeaves   int               `json:"churn_leaves"`
	Converged     bool              `json:"converged"`
	TopologyDump  map[string]string `json:"topology_dump,omitempty"`
	RouteCalls    int64             `json:"route_calls"`
	RouteProblems []c17problem      `json:"route_problems,omitempty"`
	TasksDrained  bool              `json:"tasks_drained"`
}

type c18node struct {
	spec  c18agentSpec
	agent *gossip.Agent
	tee   *c18tee
}

func c18startNode(spec c18agentSpec, rec *c18rec, factories int) (*c18node, error) {
	conf := gossip.DefaultConfig()
	conf.NodeName = spec.Name
	conf.Role = spec.Role
	conf.BindAddr = fmt.Sprintf("127.0.0.1:%d", spec.Port)
	agent, err := gossip.NewAgentFromConfig(conf)
	if err != nil {
		return nil, err
	}
	agent.Tasks = gossip.NewSimpleTasksManager(10*time.Millisecond, 64)
	var tfs []gossip.TaskFactory
	for i := 0; i < factories; i++ {
		tfs = append(tfs, &c18factory{agent: spec.Name, idx: i, rec: rec})
	}
	bp := gossip.NewBatchProcessor(agent, tfs, nil)
	tee := newC18tee(spec.Name, bp, rec)
	agent.In.Subscribe(gossip.BatchMessageType, tee, 255)
	agent.Start()
	if agent.Memberlist() == nil {
		return nil, fmt.Errorf("memberlist of %s did not start (port %d busy?)", spec.Name, spec.Port)
	}
	return &c18node{spec: spec, agent: agent, tee: tee}, nil
}

func c18topologyNames(a *gossip.Agent, roles []string) []string {
	var names []string
	for _, role := range roles {
		topo := a.VerifTopology()
		l := topo.Get(role)
		if l == nil {
			continue
		}
		topo.Lock() // Update/Delete mutate the list under this lock
		for _, p := range l.L {
			if p != nil {
				names = append(names, p.Name)
			}
		}
		topo.Unlock()
	}
	sort.Strings(names)
	return names
}

func c18netWorker(args []string) int {
	if len(args) < 2 {
		fmt.Fprintln(os.Stderr, "usage: c18net <plan.json> <out.json>")
		return 2
	}
	buf, err := ioutil.ReadFile(args[0])
	if err != nil {
		fmt.Fprintln(os.Stderr, err)
		return 2
	}
	var plan c18netPlan
	if err := json.Unmarshal(buf, &plan); err != nil {
		fmt.Fprintln(os.Stderr, err)
		return 2
	}
	out := args[1]
	rec := newC18rec()
	res := &c18netResult{Phase: "init"}
	var resMu sync.Mutex
	var routeCalls int64
	save := func(phase string) {
		resMu.Lock()
		res.Phase = phase
		res.RouteCalls = atomic.LoadInt64(&routeCalls)
		rec.mu.Lock()
		res.Receptions = append([]c18recv{}, rec.receptions...)
		res.Created = map[string]int{}
		for k, v := range rec.created {
			res.Created[k] = v
		}
		res.Executed = map[string]int{}
		for k, v := range rec.executed {
			res.Executed[k] = v
		}
		res.Undecoded = rec.undecoded
		rec.mu.Unlock()
		b, _ := json.Marshal(res)
		resMu.Unlock()
		ioutil.WriteFile(out+".tmp", b, 0644)
		os.Rename(out+".tmp", out)
	}
	r := lib.NewRand(plan.Seed)
	roleSet := map[string]bool{}
	for _, s := range plan.Agents {
		roleSet[s.Role] = true
	}
	for _, role := range plan.ChurnRoles {
		roleSet[role] = true
	}
	var allRoles []string
	for role := range roleSet {
		allRoles = append(allRoles, role)
	}
	sort.Strings(allRoles)

	var nodes []*c18node
	for i, spec := range plan.Agents {
		n, err := c18startNode(spec, rec, plan.Factories)
		if err != nil {
			res.Setup = err.Error()
			save("setup-failed")
			return 0
		}
		nodes = append(nodes, n)
		if i > 0 {
			if _, err := n.agent.Join([]string{fmt.Sprintf("127.0.0.1:%d", plan.Agents[0].Port)}); err != nil {
				res.Setup = "join: " + err.Error()
				save("setup-failed")
				return 0
			}
		}
	}
	var baseNames []string
	for _, s := range plan.Agents {
		baseNames = append(baseNames, s.Name)
	}
	sort.Strings(baseNames)
	converged := func(want []string) bool {
		for _, n := range nodes {
			if strings.Join(c18topologyNames(n.agent, allRoles), ",") != strings.Join(want, ",") {
				return false
			}
		}
		return true
	}
	t0 := time.Now()
	for !converged(baseNames) && time.Since(t0) < 30*time.Second {
		time.Sleep(20 * time.Millisecond)
	}
	if !converged(baseNames) {
		res.Setup = "cluster did not form within the watchdog"
		save("setup-failed")
		return 0
	}
	save("formed")

	quiet := func(ms int, maxWait time.Duration) bool {
		tq := time.Now()
		last := atomic.LoadInt64(&rec.nrecv)
		lastChange := time.Now()
		for time.Since(tq) < maxWait {
			time.Sleep(20 * time.Millisecond)
			cur := atomic.LoadInt64(&rec.nrecv)
			if cur != last {
				last = cur
				lastChange = time.Now()
			} else if time.Since(lastChange) > time.Duration(ms)*time.Millisecond {
				return true
			}
		}
		return false
	}
	inject := func(in c18inject) {
		_ = nodes[in.At].agent.Out.Publish(&gossip.Message{Kind: gossip.BatchMessageType, TTL: in.TTL, Payload: c18batchPayload(in.Batch, in.Snaps, r)})
	}
	selfCheck := func(n *c18node, everNames map[string]bool, k int) {
		for i := 0; i < k; i++ {
			dst := n.agent.VerifRoute(n.agent.Self)
			atomic.AddInt64(&routeCalls, 1)
			for _, d := range dst {
				if d.Name == n.spec.Name {
					resMu.Lock()
					res.RouteProblems = append(res.RouteProblems, c17problem{"C18:self:route-contains-self", "live agent " + n.spec.Name + " routes to itself"})
					resMu.Unlock()
				}
				if !everNames[d.Name] {
					resMu.Lock()
					res.RouteProblems = append(res.RouteProblems, c17problem{"C18:view:route-to-never-present-peer", "live agent " + n.spec.Name + " routes to " + d.Name + " which never joined"})
					resMu.Unlock()
				}
			}
		}
	}
	ever := map[string]bool{}
	for _, s := range plan.Agents {
		ever[s.Name] = true
	}
	for i := range plan.ChurnPorts {
		ever[fmt.Sprintf("churn-%d", i)] = true
	}

	// ---- TTL rounds
	for ri, round := range plan.Rounds {
		for _, in := range round {
			inject(in)
		}
		for _, n := range nodes {
			selfCheck(n, ever, 50)
		}
		q := quiet(plan.QuietMs, 90*time.Second)
		resMu.Lock()
		res.QuietReached = append(res.QuietReached, q)
		resMu.Unlock()
		save(fmt.Sprintf("round-%d", ri))
	}

	// ---- churn: joins and leaves while batches are being sent
	if plan.ChurnCycles > 0 {
		var stop int32
		var iwg sync.WaitGroup
		var injMu sync.Mutex
		next := uint64(1) << 30
		for g := 0; g < 2; g++ {
			iwg.Add(1)
			go func(g int) {
				defer iwg.Done()
				rr := lib.NewRand(plan.Seed ^ uint64(g+77))
				for atomic.LoadInt32(&stop) == 0 {
					injMu.Lock()
					next++
					in := c18inject{Batch: next, At: rr.Intn(len(nodes)), TTL: rr.Pick(1, 2, 3), Snaps: 1}
					resMu.Lock()
					res.ChurnInjected = append(res.ChurnInjected, in)
					resMu.Unlock()
					injMu.Unlock()
					_ = nodes[in.At].agent.Out.Publish(&gossip.Message{Kind: gossip.BatchMessageType, TTL: in.TTL, Payload: c18batchPayload(in.Batch, in.Snaps, rr)})
					selfCheck(nodes[in.At], ever, 5)
					time.Sleep(time.Duration(rr.Range(plan.ChurnGapMs[0], plan.ChurnGapMs[1])) * time.Millisecond)
				}
			}(g)
		}
		for cy := 0; cy < plan.ChurnCycles && cy < len(plan.ChurnPorts); cy++ {
			spec := c18agentSpec{Name: fmt.Sprintf("churn-%d", cy), Role: plan.ChurnRoles[cy%len(plan.ChurnRoles)], Port: plan.ChurnPorts[cy]}
			n, err := c18startNode(spec, rec, plan.Factories)
			if err != nil {
				continue
			}
			if _, err := n.agent.Join([]string{fmt.Sprintf("127.0.0.1:%d", plan.Agents[cy%len(plan.Agents)].Port)}); err == nil {
				resMu.Lock()
				res.ChurnJoins++
				resMu.Unlock()
			}
			time.Sleep(time.Duration(r.Range(150, 400)) * time.Millisecond)
			_ = n.agent.Leave()
			_ = n.agent.Shutdown()
			n.tee.stop()
			resMu.Lock()
			res.ChurnLeaves++
			resMu.Unlock()
			time.Sleep(time.Duration(r.Range(20, 120)) * time.Millisecond)
		}
		atomic.StoreInt32(&stop, 1)
		iwg.Wait()
		q := quiet(plan.QuietMs, 90*time.Second)
		resMu.Lock()
		res.QuietReached = append(res.QuietReached, q)
		resMu.Unlock()
		// the view must return to the set of agents that are still there (logical condition, generous watchdog)
		tc := time.Now()
		for !converged(baseNames) && time.Since(tc) < 45*time.Second {
			time.Sleep(50 * time.Millisecond)
		}
		resMu.Lock()
		res.Converged = converged(baseNames)
		if !res.Converged {
			res.TopologyDump = map[string]string{}
			for _, n := range nodes {
				res.TopologyDump[n.spec.Name] = strings.Join(c18topologyNames(n.agent, allRoles), ",")
			}
		}
		resMu.Unlock()
		save("churn")
	}
	// tasks: every created task gets executed (drain), then final dump
	td := time.Now()
	for atomic.LoadInt64(&rec.nexecuted) < atomic.LoadInt64(&rec.ncreated) && time.Since(td) < 20*time.Second {
		time.Sleep(10 * time.Millisecond)
	}
	resMu.Lock()
	res.TasksDrained = atomic.LoadInt64(&rec.nexecuted) >= atomic.LoadInt64(&rec.ncreated)
	resMu.Unlock()
	save("done")
	for _, n := range nodes {
		_ = n.agent.Shutdown()
		n.tee.stop()
	}
	return 0
}

// c18makeNetPlan builds a cluster plan. basePort..basePort+19 belong to this plan.
func c18makeNetPlan(r *lib.Rand, idx, basePort int, thorough, race bool) *c18netPlan {
	p := &c18netPlan{ID: fmt.Sprintf("net-%02d", idx), Seed: r.Uint64(), Factories: r.Pick(1, 2), QuietMs: 1200, ChurnGapMs: [2]int{10, 30}}
	if race {
		p.ChurnGapMs = [2]int{50, 120} // the race build is 5-10x slower: keep the backlog short
	}
	n := []int{3, 4, 6, 5}[idx%4]
	nroles := r.Range(2, 4)
	if n == 3 && idx%8 == 0 {
		nroles = 1 // everybody in one role: at most one destination per hop
	}
	for i := 0; i < n; i++ {
		role := c18roles[i%nroles]
		p.Agents = append(p.Agents, c18agentSpec{Name: fmt.Sprintf("%s-n%d", role, i), Role: role, Port: basePort + i})
	}
	var id uint64 = uint64(idx+1) << 12
	rounds := 2
	perTTL := 3
	if thorough {
		rounds, perTTL = 4, 5
	}
	for ro := 0; ro < rounds; ro++ {
		var round []c18inject
		for _, T := range []int{-1, 0, 1, 2, 5} {
			for k := 0; k < perTTL; k++ {
				id++
				round = append(round, c18inject{Batch: id, At: r.Intn(n), TTL: T, Snaps: r.Range(1, 3)})
			}
		}
		if ro%2 == 1 {
			for _, T := range []int{-3, 3, 8} {
				id++
				round = append(round, c18inject{Batch: id, At: r.Intn(n), TTL: T, Snaps: 1})
			}
		}
		p.Rounds = append(p.Rounds, round)
	}
	p.ChurnCycles = 3
	if thorough {
		p.ChurnCycles = 6
	}
	for i := 0; i < p.ChurnCycles; i++ {
		p.ChurnPorts = append(p.ChurnPorts, basePort+8+i)
	}
	p.ChurnRoles = []string{c18roles[r.Intn(4)], "storage", c18roles[r.Intn(4)]}
	return p
}

// c18evalNet applies the oracle to what the child recorded.
func c18evalNet(c *lib.Ctx, p *c18netPlan, res *c18netResult, label string) {
	detail := func(extra map[string]interface{}) map[string]interface{} {
		extra["id"] = p.ID
		extra["plan"] = p
		extra["child"] = label
		return extra
	}
	byBatch := map[uint64][]c18recv{}
	for _, rc := range res.Receptions {
		byBatch[rc.Batch] = append(byBatch[rc.Batch], rc)
	}
	completedRounds := len(res.QuietReached)
	evalBatch := func(in c18inject, quietOK bool) {
		recs := byBatch[in.Batch]
		c.Count("batches_injected", 1)
		c.Count("receptions_observed", int64(len(recs)))
		c.Seen("initial_ttls", strconv.Itoa(in.TTL))
		for _, rc := range recs {
			c.Count(fmt.Sprintf("receptions_T=%d_ttl=%d", in.TTL, rc.TTL), 1)
		}
		if !quietOK {
			c.Count("batches_not_evaluated_network_not_quiet", 1)
			return
		}
		// first TTL each agent's processor saw (the only reception it forwards)
		first := map[string]int{}
		firstSeq := map[string]int{}
		for _, rc := range recs {
			if s, ok := firstSeq[rc.Agent]; !ok || rc.Seq < s {
				firstSeq[rc.Agent] = rc.Seq
				first[rc.Agent] = rc.TTL
			}
		}
		if in.TTL <= 0 {
			if len(recs) > 0 {
				cls := "zero"
				if in.TTL < 0 {
					cls = "negative"
				}
				c.Violation("C18:ttl:exhausted-message-sent-on:"+cls+"-initial-ttl",
					fmt.Sprintf("%s %s: a batch published with TTL %d (exhausted) was sent on: %d receptions, TTLs %v", label, p.ID, in.TTL, len(recs), c18ttlList(recs)),
					detail(map[string]interface{}{"inject": in, "receptions": recs}))
			}
			c.Case(fmt.Sprintf("net/%s/n=%d/T=%d/recv=%v", label, len(p.Agents), in.TTL, len(recs) > 0), true)
			return
		}
		legit := map[int]bool{in.TTL - 1: true}
		for _, t := range first {
			if t >= 1 {
				legit[t-1] = true
			}
		}
		for _, rc := range recs {
			switch {
			case rc.TTL < 0:
				c.Violation("C18:ttl:received-below-zero", fmt.Sprintf("%s %s: batch with initial TTL %d was received with TTL %d at %s: an exhausted message was sent on", label, p.ID, in.TTL, rc.TTL, rc.Agent),
					detail(map[string]interface{}{"inject": in, "receptions": recs}))
			case rc.TTL >= in.TTL:
				c.Violation("C18:ttl:not-lowered", fmt.Sprintf("%s %s: batch with initial TTL %d was received with TTL %d at %s: a hop did not lower it", label, p.ID, in.TTL, rc.TTL, rc.Agent),
					detail(map[string]interface{}{"inject": in, "receptions": recs}))
			case !legit[rc.TTL]:
				// lowered, but not by exactly one from any holder: the property only says "lowers" -> information
				c.Count("receptions_lowered_by_more_than_one", 1)
			default:
				c.Count("receptions_exactly_one_below_a_holder", 1)
			}
		}
		// at most once per agent and factory
		multi := 0
		names := map[string]bool{}
		for _, a := range p.Agents {
			names[a.Name] = true
		}
		for _, rc := range recs {
			names[rc.Agent] = true
		}
		for aname := range names {
			a := c18agentSpec{Name: aname}
			cnt := 0
			for _, rc := range recs {
				if rc.Agent == a.Name {
					cnt++
				}
			}
			if cnt > 1 {
				multi++
				c.Count("agents_with_redelivery", 1)
			}
			for f := 0; f < p.Factories; f++ {
				k := c18key(a.Name, f, in.Batch)
				if res.Created[k] > 1 || res.Executed[k] > 1 {
					c.Violation("C18:once:network-redelivery", fmt.Sprintf("%s %s: agent %s created %d / ran %d tasks of factory %d for batch %d which it received %d times", label, p.ID, a.Name, res.Created[k], res.Executed[k], f, in.Batch, cnt),
						detail(map[string]interface{}{"inject": in, "receptions": recs}))
				}
				if res.Created[k] == 1 {
					c.Count("agent_batch_tasks_created_once", 1)
				}
				if cnt > 0 {
					c.Seen("tasks_per_agent_factory_batch_when_received", fmt.Sprintf("received %s -> created %d, executed %d", c18mult(cnt), res.Created[k], res.Executed[k]))
				}
			}
		}
		minTTL := in.TTL
		for _, rc := range recs {
			if rc.TTL < minTTL {
				minTTL = rc.TTL
			}
		}
		c.Case(fmt.Sprintf("net/%s/n=%d/roles=%d/T=%d/recv=%d/minttl=%d/redeliv=%v", label, len(p.Agents), c18nroles(p), in.TTL, len(recs), minTTL, multi > 0), len(recs) > 0)
	}
	for ri, round := range p.Rounds {
		if ri >= completedRounds {
			c.Inconclusive(fmt.Sprintf("%s %s: round %d was not completed (child phase %q)", label, p.ID, ri, res.Phase))
			continue
		}
		if !res.QuietReached[ri] {
			c.Inconclusive(fmt.Sprintf("%s %s: network did not go quiet within the watchdog after round %d (%d batches not evaluated)", label, p.ID, ri, len(round)))
		}
		for _, in := range round {
			evalBatch(in, res.QuietReached[ri])
		}
	}
	if p.ChurnCycles > 0 && (res.Phase == "churn" || res.Phase == "done") {
		c.Count("churn_joins", int64(res.ChurnJoins))
		c.Count("churn_leaves", int64(res.ChurnLeaves))
		q := res.QuietReached[len(res.QuietReached)-1]
		if !q {
			c.Inconclusive(fmt.Sprintf("%s %s: network did not go quiet within the watchdog after the churn phase (%d batches not evaluated)", label, p.ID, len(res.ChurnInjected)))
		}
		for _, in := range res.ChurnInjected {
			evalBatch(in, q)
		}
		if !res.Converged {
			c.Inconclusive(fmt.Sprintf("%s %s: topologies did not return to the surviving membership within the watchdog: %v", label, p.ID, res.TopologyDump))
		} else {
			c.Count("views_converged_after_churn", 1)
		}
	}
	c.Count("route_calls_live_agents", res.RouteCalls)
	for _, pr := range res.RouteProblems {
		c.Violation(pr.Key, label+" "+p.ID+": "+pr.What, detail(map[string]interface{}{}))
	}
	if res.Undecoded > 0 {
		c.Count("undecodable_messages", int64(res.Undecoded))
	}
}

func c18mult(n int) string {
	switch {
	case n <= 1:
		return "once"
	case n <= 3:
		return "2-3 times"
	default:
		return "4+ times"
	}
}

func c18nroles(p *c18netPlan) int {
	m := map[string]bool{}
	for _, a := range p.Agents {
		m[a.Role] = true
	}
	return len(m)
}

func c18ttlList(recs []c18recv) []int {
	var out []int
	for _, rc := range recs {
		out = append(out, rc.TTL)
	}
	sort.Ints(out)
	if len(out) > 16 {
		out = out[:16]
	}
	return out
}

// c18runNet runs one cluster plan in a child (up to 3 attempts on setup trouble) and evaluates it.
func c18runNet(c *lib.Ctx, seeds []uint64, idx int, race bool, slots []int) {
	label := "plain"
	if race {
		label = "race"
	}
	for attempt := 0; attempt < 3; attempt++ {
		basePort := 21000 + (slots[attempt] % 49 * 20)
		p := c18makeNetPlan(lib.NewRand(seeds[attempt]), idx, basePort, c.Thorough() && !race, race) // race children always run the small plan
		if !onlyMatch(c, p.ID) {
			return
		}
		dir := c.Dir(fmt.Sprintf("net-%s-%d-%d", label, idx, attempt))
		planPath := filepath.Join(dir, "plan.json")
		out := filepath.Join(dir, "result.json")
		buf, _ := json.Marshal(p)
		ioutil.WriteFile(planPath, buf, 0644)
		cr := runChild(dir, race, 400*time.Second, "c18net", planPath, out)
		var res c18netResult
		rb, err := ioutil.ReadFile(out)
		if err == nil {
			err = json.Unmarshal(rb, &res)
		}
		if cr.StartErr != "" || err != nil || res.Setup != "" || res.Phase == "init" {
			c.Count("net_setup_retries", 1)
			if attempt == 2 {
				c.Inconclusive(fmt.Sprintf("C18 net %s %s: setup failed 3 times: start=%q setup=%q err=%v exit=%d %s", label, p.ID, cr.StartErr, res.Setup, err, cr.ExitCode, tailFile(cr.Stderr, 3)))
			}
			continue
		}
		c.Count("clusters_run_"+label, 1)
		c18evalNet(c, p, &res, label)
		if res.Phase != "done" {
			// the child died: a crash in topology code during churn refutes the consistency clause
			if ci := parseCrash(cr.Stderr); ci != nil {
				where := ci.Frame
				if ci.Top != "" {
					where = ci.Top
				}
				c.Count("child_crashes", 1)
				if strings.HasPrefix(where, "Topology.") || strings.HasPrefix(where, "PeerList.") || strings.HasPrefix(where, "Agent.route") {
					c.Violation("C18:crash:"+ci.Kind+":"+where, fmt.Sprintf("net %s %s: live cluster died with %q in %s (phase %s)", label, p.ID, ci.Kind, where, res.Phase),
						map[string]interface{}{"id": p.ID, "plan": p, "stderr": ci.Sample})
				} else {
					c.Inconclusive(fmt.Sprintf("C18 net %s %s: child crashed: %s in %s", label, p.ID, ci.Kind, where))
				}
			} else {
				c.Inconclusive(fmt.Sprintf("C18 net %s %s: child stopped in phase %q (timeout=%v exit=%d)", label, p.ID, res.Phase, cr.TimedOut, cr.ExitCode))
			}
		}
		if race {
			c18raceVerdicts(c, "net-"+p.ID, cr)
		}
		if idx == 0 && !race {
			c.Sample(map[string]interface{}{"cluster": p.Agents, "first_round": p.Rounds[0], "receptions_first_20": firstN(res.Receptions, 20)})
		}
		return
	}
}

func firstN(x []c18recv, n int) []c18recv {
	if len(x) > n {
		return x[:n]
	}
	return x
}

// =====================================================================================
// driver
// =====================================================================================

func RunC18(c *lib.Ctx) {
	c.Rule = "net: one case = (cluster size, roles, initial TTL, number of receptions, lowest TTL seen, whether some agent got the batch more than once), non-trivial iff the batch was received somewhere (or T<=0, where silence is the expected observation); " +
		"dedup: (batches, repeats, goroutines, factories, order), non-trivial iff repeats>1; route-model: (roles, names, widest decision), non-trivial iff some decision was non-empty; route-concurrent: one per child run that made routing calls while events were applied"
	c.Assume = []string{
		"a reception recorded by the tee between agent.In and the real BatchProcessor is exactly what memberlist delivered (TTL read before Agent.Send mutates the shared message)",
		"the wire From field is not used (assigned after encoding)",
		"network quiet = no reception at any agent for 1.2 s (12 memberlist gossip intervals; forwarding uses direct TCP sends); the claim 'an exhausted message is never sent on' is checked as 'no reception was recorded by then'",
		"production agents always have a cache (gossip.configToOptions sets one); the dedup monitor uses the same constructor",
		"race reports are attributed by the innermost github.com/bbva/qed frame and the Topology-level frame of each access",
	}
	phase := map[string]float64{}
	tPhase := time.Now()
	mark := func(name string) {
		phase[name] = float64(int(time.Since(tPhase).Seconds()*10)) / 10
		tPhase = time.Now()
		c.Extra("phase_seconds", phase)
	}
	// ---- (b) dedup
	rb := c.Rand("dedup")
	nd := c.Q(24, 150)
	dplans := make([]*c18dedupPlan, nd)
	for i := range dplans {
		dplans[i] = &c18dedupPlan{ID: fmt.Sprintf("dedup-%03d", i), Batches: rb.Pick(1, 2, 5, 20, 60), Repeats: rb.Pick(1, 2, 3, 7, 20), Peers: rb.Pick(1, 2, 4, 8, 16),
			Factories: rb.Pick(1, 2, 3), Snaps: rb.Pick(1, 2, 10), Order: []string{"shuffled", "grouped", "interleaved"}[i%3], Seed: rb.Uint64()}
		if i%6 == 0 && dplans[i].Repeats == 1 {
			dplans[i].Repeats = 4
		}
		if i%4 == 1 {
			// copies of a batch arriving at the same moment (several peers gossip it at once), slow cache
			dplans[i].SlowCache = rb.Pick(200, 1000, 3000)
			dplans[i].Order = "grouped"
			if dplans[i].Repeats < 3 {
				dplans[i].Repeats = 4
			}
			if dplans[i].Batches > 20 {
				dplans[i].Batches = 20
			}
		}
	}
	parallel(nd, 6, func(i int) {
		if !onlyMatch(c, dplans[i].ID) {
			return
		}
		c18runDedup(c, dplans[i])
	})

	mark("dedup")
	// ---- (c1) routing against the set model
	rr := c.Rand("route-model")
	nr := c.Q(12, 60)
	rplans := make([]*c18routePlan, nr)
	for i := range rplans {
		rplans[i] = &c18routePlan{ID: fmt.Sprintf("route-%03d", i), Steps: c.Q(300, 1000), Routes: 24, Roles: rr.Range(1, 4), Names: rr.Pick(1, 2, 3, 6), Seed: rr.Uint64()}
	}
	parallel(nr, 4, func(i int) {
		if !onlyMatch(c, rplans[i].ID) {
			return
		}
		c18runRouteModel(c, rplans[i])
	})

	mark("route-model")
	// ---- (c2) routing concurrent with topology events (plain and race children) and (a) live clusters:
	// independent child processes, run up to 4 at a time
	var jobs []func()
	if c.Only == "" || c.Only == "topo" {
		calls := c.Q(100000, 400000)
		nruns := c.Q(1, 4)
		for k := 0; k < nruns; k++ {
			k := k
			jobs = append(jobs, func() {
				dir := c.Dir(fmt.Sprintf("topo-plain-%d", k))
				out := filepath.Join(dir, "result.json")
				cr := runChild(dir, false, 180*time.Second, "c18topo", strconv.FormatUint(uint64(c.Seed)*1000+uint64(k), 10), strconv.Itoa(calls), "8", "3", out)
				c18evalTopoChild(c, fmt.Sprintf("topo-plain-%d", k), cr, out)
			})
		}
		if qvBin(true) != "" {
			for k := 0; k < nruns; k++ {
				k := k
				jobs = append(jobs, func() {
					dir := c.Dir(fmt.Sprintf("topo-race-%d", k))
					out := filepath.Join(dir, "result.json")
					cr := runChild(dir, true, 400*time.Second, "c18topo", strconv.FormatUint(uint64(c.Seed)*1000+uint64(k)+500, 10), strconv.Itoa(c.Q(40000, 200000)), "8", "3", out)
					c18evalTopoChild(c, fmt.Sprintf("topo-race-%d", k), cr, out)
				})
			}
		} else {
			c.Inconclusive("C18: no race binary (QV_RACE_BIN): the consistency clause could not be checked under the race detector")
		}
	}
	rn := c.Rand("net")
	slot0 := int((uint64(c.Seed)*7 + uint64(os.Getpid())) % 49)
	nclusters := c.Q(3, 12)
	nrace := 0
	if qvBin(true) != "" && c.Only == "" {
		nrace = c.Q(1, 3)
	}
	for i := 0; i < nclusters+nrace; i++ {
		i := i
		seeds := []uint64{rn.Uint64(), rn.Uint64(), rn.Uint64()}
		slots := []int{slot0 + i, slot0 + nclusters + nrace + i, slot0 + 2*(nclusters+nrace) + i}
		if i < nclusters {
			jobs = append(jobs, func() { c18runNet(c, seeds, i, false, slots) })
		} else {
			jobs = append(jobs, func() { c18runNet(c, seeds, i-nclusters+1, true, slots) })
		}
	}
	parallel(len(jobs), 4, func(i int) { jobs[i]() })
	mark("children")
}

func init() {
	Workers["c18topo"] = c18topoWorker
	Workers["c18net"] = c18netWorker
}
