// qvg: private development driver for the gossipp package only (same CLI as qv). Not part of the deliverable.
package main

import (
	"flag"
	"fmt"
	"os"

	"qedverif/lib"
	"qedverif/props/gossipp"
)

func main() {
	switch os.Args[1] {
	case "worker":
		w, ok := gossipp.Workers[os.Args[2]]
		if !ok {
			fmt.Fprintln(os.Stderr, "unknown worker", os.Args[2])
			os.Exit(2)
		}
		os.Exit(w(os.Args[3:]))
	case "run":
		prop := os.Args[2]
		fs := flag.NewFlagSet("run", flag.ExitOnError)
		tier := fs.String("tier", "quick", "")
		seed := fs.Int64("seed", 1, "")
		only := fs.String("only", "", "")
		root := fs.String("root", "/verif", "")
		fs.Parse(os.Args[3:])
		run := map[string]func(*lib.Ctx){"C17": gossipp.RunC17, "C18": gossipp.RunC18}[prop]
		c := lib.NewCtx(prop, *tier, *seed, *root)
		c.Only = *only
		run(c)
		os.Exit(c.Finish())
	}
}
