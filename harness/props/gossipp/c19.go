package gossipp

import (
	"bytes"
	"context"
	"encoding/json"
	"fmt"
	"io/ioutil"
	"net/http"
	"net/http/httptest"
	"net/http/httputil"
	"net/url"
	"strconv"
	"sync"
	"sync/atomic"
	"time"

	"github.com/bbva/qed/api/apihttp"
	"github.com/bbva/qed/client"
	"github.com/bbva/qed/cmd"
	"github.com/bbva/qed/crypto/hashing"
	"github.com/bbva/qed/crypto/sign"
	"github.com/bbva/qed/gossip"
	"github.com/bbva/qed/log"
	"github.com/bbva/qed/protocol"

	"qedverif/lib"
	"qedverif/props/cluster"
)

// ---------- recording collaborators ----------

type c19store struct {
	mu       sync.Mutex
	snaps    map[uint64]*protocol.SignedSnapshot // what GET /snapshot serves
	tamper   func(v uint64, s *protocol.SignedSnapshot) *protocol.SignedSnapshot
	batches  int
	received map[string]int // signature -> times received through POST /batch
	gate     chan struct{}  // if set: the next POST /batch signals arrived and waits for the gate
	arrived  chan struct{}
	srv      *httptest.Server
}

func newC19store() *c19store {
	s := &c19store{snaps: map[uint64]*protocol.SignedSnapshot{}, received: map[string]int{}}
	mux := http.NewServeMux()
	mux.HandleFunc("/batch", func(w http.ResponseWriter, r *http.Request) {
		buf, _ := ioutil.ReadAll(r.Body)
		var b protocol.BatchSnapshots
		if err := b.Decode(buf); err != nil {
			w.WriteHeader(400)
			return
		}
		s.mu.Lock()
		s.batches++
		for _, ss := range b.Snapshots {
			s.received[string(ss.Signature)]++
		}
		gate, arrived := s.gate, s.arrived
		s.gate, s.arrived = nil, nil
		s.mu.Unlock()
		if gate != nil {
			close(arrived)
			<-gate
		}
		w.WriteHeader(200)
	})
	mux.HandleFunc("/snapshot", func(w http.ResponseWriter, r *http.Request) {
		v, err := strconv.ParseUint(r.URL.Query().Get("v"), 10, 64)
		s.mu.Lock()
		ss, ok := s.snaps[v]
		tf := s.tamper
		s.mu.Unlock()
		if err != nil || !ok {
			w.WriteHeader(404)
			return
		}
		if tf != nil {
			ss = tf(v, ss)
		}
		buf, _ := ss.Encode()
		w.Write(buf)
	})
	mux.HandleFunc("/count", func(w http.ResponseWriter, r *http.Request) {
		s.mu.Lock()
		n := len(s.snaps)
		s.mu.Unlock()
		fmt.Fprintf(w, "%d", n)
	})
	s.srv = httptest.NewServer(mux)
	return s
}

type c19alerts struct {
	mu    sync.Mutex
	msgs  []string
	delay time.Duration // the alert service answers after this long
	srv   *httptest.Server
}

func newC19alerts() *c19alerts {
	a := &c19alerts{}
	a.srv = httptest.NewServer(http.HandlerFunc(func(w http.ResponseWriter, r *http.Request) {
		buf, _ := ioutil.ReadAll(r.Body)
		a.mu.Lock()
		a.msgs = append(a.msgs, string(buf))
		d := a.delay
		a.mu.Unlock()
		if d > 0 {
			time.Sleep(d)
		}
		w.WriteHeader(200)
	}))
	return a
}

func (a *c19alerts) count() int {
	a.mu.Lock()
	defer a.mu.Unlock()
	return len(a.msgs)
}

// drain waits until the asynchronous notifier delivered everything: the count is stable for 120 ms.
func (a *c19alerts) drain() int {
	last, since := a.count(), time.Now()
	deadline := time.Now().Add(10 * time.Second)
	for time.Now().Before(deadline) {
		time.Sleep(25 * time.Millisecond)
		if n := a.count(); n != last {
			last, since = n, time.Now()
		} else if time.Since(since) > 120*time.Millisecond {
			break
		}
	}
	return last
}

// tampering reverse proxy in front of the API
type c19proxy struct {
	mu     sync.Mutex
	mutate func(path string, body []byte) []byte
	srv    *httptest.Server
}

func newC19proxy(target string) *c19proxy {
	p := &c19proxy{}
	u, _ := url.Parse(target)
	rp := httputil.NewSingleHostReverseProxy(u)
	rp.ModifyResponse = func(resp *http.Response) error {
		p.mu.Lock()
		m := p.mutate
		p.mu.Unlock()
		if m == nil || resp.StatusCode != 200 {
			return nil
		}
		body, _ := ioutil.ReadAll(resp.Body)
		resp.Body.Close()
		nb := m(resp.Request.URL.Path, body)
		resp.Body = ioutil.NopCloser(bytes.NewReader(nb))
		resp.ContentLength = int64(len(nb))
		resp.Header.Set("Content-Length", strconv.Itoa(len(nb)))
		return nil
	}
	p.srv = httptest.NewServer(rp)
	return p
}

func (p *c19proxy) set(m func(path string, body []byte) []byte) {
	p.mu.Lock()
	p.mutate = m
	p.mu.Unlock()
}

// ---------- the check ----------

type c19case struct {
	ID         string `json:"id"`
	Agent      string `json:"agent"` // auditor | monitor | publisher
	First      uint64 `json:"batch_first_version"`
	Size       int    `json:"batch_size"`
	Alteration string `json:"alteration"`
	Binding    bool   `json:"alteration_is_checked_by_this_agent"`
	Alerts     int    `json:"alerts_raised"`
}

func flipD(d hashing.Digest) hashing.Digest {
	o := append(hashing.Digest{}, d...)
	if len(o) > 0 {
		o[len(o)/3] ^= 0x10
	}
	return o
}

func cloneBatch(b *protocol.BatchSnapshots) *protocol.BatchSnapshots {
	o := &protocol.BatchSnapshots{}
	for _, ss := range b.Snapshots {
		s := *ss.Snapshot
		s.EventDigest = append(hashing.Digest{}, s.EventDigest...)
		s.HistoryDigest = append(hashing.Digest{}, s.HistoryDigest...)
		s.HyperDigest = append(hashing.Digest{}, s.HyperDigest...)
		o.Snapshots = append(o.Snapshots, &protocol.SignedSnapshot{Snapshot: &s, Signature: append([]byte{}, ss.Signature...)})
	}
	return o
}

func RunC19(c *lib.Ctx) {
	c.Rule = "case = one execution of a real agent task (auditor membershipFactory, monitor incrementalFactory, publisher publisherFactory, built through the verif constructors) inside a real gossip.Agent whose collaborators are the real client.HTTPClient pointed (through a tampering reverse proxy) at a real single-node QED API holding an honest log of distinct events, the real RestSnapshotStore against a recording snapshot-store service and the real SimpleNotifier against a recording alert endpoint; matrix per batch: untouched, each single alteration of the gossiped snapshot (event digest, history digest, version of the snapshots the agent uses), of the stored snapshot (hyper digest), and of the log's answer (audit-path byte, versions, Exists); oracle: alert raised <=> the altered item is one the agent's verification binds (fixed table, independent of QED's verifier); publisher: redelivery patterns (same batch x r, overlapping batches, reordered, through the real BatchProcessor concurrently) - the store must receive every signature exactly once; non-trivial = task ran to completion; distinct by (agent, alteration, batch shape)."
	c.Assume = []string{"alerts are collected after the task returned and the notifier endpoint count was stable for 120 ms (watchdog 10 s)", "alterations of fields an agent does not use (e.g. the gossiped hyper digest for the auditor) are not asserted either way", "direct concurrent execution of publisher tasks for overlapping batches is reported as information (the processor de-duplicates identical batches before tasks are created)"}
	log.SetDefault(log.New(&log.LoggerOptions{Level: log.Off}))
	dir := c.Dir("node")
	nd, err := cluster.StartSingle(dir)
	if err != nil {
		c.Inconclusive("QED node did not start: " + err.Error())
		return
	}
	defer nd.Close()
	api := httptest.NewServer(apihttp.NewApiHttp(nd.N))
	defer api.Close()
	proxy := newC19proxy(api.URL)
	defer proxy.srv.Close()
	store := newC19store()
	defer store.srv.Close()
	alerts := newC19alerts()
	defer alerts.srv.Close()
	signer := sign.NewEd25519Signer()

	// honest log of distinct events: single and bulk insertions
	r := c.Rand("log")
	var snaps []*protocol.SignedSnapshot
	nOps := c.Q(30, 120)
	for i := 0; i < nOps; i++ {
		k := r.Pick(1, 1, 2, 3, 7)
		evs := make([][]byte, k)
		for j := range evs {
			evs[j] = []byte(fmt.Sprintf("c19-%d-%d", i, j))
		}
		ss, err := nd.N.AddBulk(evs)
		if err != nil {
			c.Inconclusive("add failed: " + err.Error())
			return
		}
		for _, s := range ss {
			ps := protocol.Snapshot(*s)
			sig, _ := signer.Sign([]byte(fmt.Sprintf("%v", &ps)))
			snaps = append(snaps, &protocol.SignedSnapshot{Snapshot: &ps, Signature: sig})
		}
	}
	store.mu.Lock()
	for _, ss := range snaps {
		store.snaps[ss.Snapshot.Version] = ss
	}
	store.mu.Unlock()
	total := len(snaps)

	newQed := func() (*client.HTTPClient, error) {
		return client.NewHTTPClient(client.SetHttpClient(&http.Client{Timeout: 10 * time.Second}), client.SetURLs(proxy.srv.URL), client.SetReadPreference(client.Any),
			client.SetMaxRetries(0), client.SetTopologyDiscovery(false), client.SetHealthChecks(false), client.SetHasherFunction(hashing.NewSha256Hasher),
			client.SetSnapshotStoreURL(store.srv.URL), client.SetAttemptToReviveEndpoints(true))
	}
	mkAgent := func(name string) (*gossip.Agent, *gossip.SimpleNotifier, error) {
		conf := gossip.DefaultConfig()
		conf.NodeName = name
		conf.Role = name
		conf.BindAddr = "127.0.0.1:23999" // never bound: the agent is not started
		a, err := gossip.NewAgentFromConfig(conf)
		if err != nil {
			return nil, nil, err
		}
		qed, err := newQed()
		if err != nil {
			return nil, nil, err
		}
		a.Qed = qed
		a.SnapshotStore = gossip.NewRestSnapshotStore([]string{store.srv.URL}, 2*time.Second, 5*time.Second)
		n := gossip.NewSimpleNotifier([]string{alerts.srv.URL}, 100, 2*time.Second, 5*time.Second, nil)
		n.Start()
		a.Notifier = n
		return a, n, nil
	}
	run := func(a *gossip.Agent, f gossip.TaskFactory, b *protocol.BatchSnapshots) (err error, panicked string) {
		ctx := context.WithValue(context.WithValue(context.Background(), "agent", a), "batch", b)
		pan, msg := lib.Recover(func() { err = f.New(ctx)() })
		if pan {
			return nil, msg
		}
		return err, ""
	}
	batchAt := func(first, size int) *protocol.BatchSnapshots {
		b := &protocol.BatchSnapshots{}
		for i := first; i < first+size && i < total; i++ {
			b.Snapshots = append(b.Snapshots, snaps[i])
		}
		return cloneBatch(b)
	}

	aud, audN, err := mkAgent("auditor")
	if err != nil {
		c.Inconclusive("agent: " + err.Error())
		return
	}
	defer audN.Stop()
	mon, monN, err := mkAgent("monitor")
	if err != nil {
		c.Inconclusive("agent: " + err.Error())
		return
	}
	defer monN.Stop()
	memF := cmd.VerifMembershipFactory(log.L())
	incF := cmd.VerifIncrementalFactory(log.L())

	type alteration struct {
		name    string
		binding bool
		gossip  func(b *protocol.BatchSnapshots, r *lib.Rand)
		stored  func(v uint64, s *protocol.SignedSnapshot) *protocol.SignedSnapshot
		answer  func(path string, body []byte) []byte
	}
	mutJSON := func(body []byte, f func(m map[string]interface{})) []byte {
		var m map[string]interface{}
		if json.Unmarshal(body, &m) != nil {
			return body
		}
		f(m)
		out, _ := json.Marshal(m)
		return out
	}
	var applied int32
	flipPath := func(field string) func(string, []byte) []byte {
		return func(path string, body []byte) []byte {
			return mutJSON(body, func(m map[string]interface{}) {
				ap, ok := m[field].(map[string]interface{})
				if !ok {
					return
				}
				for k, v := range ap { // alter one entry (base64 text: replace its first character)
					if s, ok := v.(string); ok && len(s) > 2 {
						ch := byte('A')
						if s[0] == 'A' {
							ch = 'B'
						}
						ap[k] = string(ch) + s[1:]
						atomic.StoreInt32(&applied, 1)
						return
					}
				}
			})
		}
	}
	auditorAlts := []alteration{
		{name: "untouched"},
		{name: "gossiped-first-event-digest", binding: true, gossip: func(b *protocol.BatchSnapshots, r *lib.Rand) {
			b.Snapshots[0].Snapshot.EventDigest = flipD(b.Snapshots[0].Snapshot.EventDigest)
		}},
		{name: "gossiped-first-history-digest", binding: true, gossip: func(b *protocol.BatchSnapshots, r *lib.Rand) {
			b.Snapshots[0].Snapshot.HistoryDigest = flipD(b.Snapshots[0].Snapshot.HistoryDigest)
		}},
		{name: "gossiped-first-version+1", binding: true, gossip: func(b *protocol.BatchSnapshots, r *lib.Rand) { b.Snapshots[0].Snapshot.Version++ }},
		{name: "gossiped-first-version-1", binding: true, gossip: func(b *protocol.BatchSnapshots, r *lib.Rand) { b.Snapshots[0].Snapshot.Version-- }},
		{name: "stored-current-hyper-digest", binding: true, stored: func(v uint64, s *protocol.SignedSnapshot) *protocol.SignedSnapshot {
			if v != uint64(total-1) {
				return s
			}
			cp := *s.Snapshot
			cp.HyperDigest = flipD(cp.HyperDigest)
			return &protocol.SignedSnapshot{Snapshot: &cp, Signature: s.Signature}
		}},
		{name: "answer-hyper-path-entry", binding: true, answer: flipPath("Hyper")},
		{name: "answer-history-path-entry", binding: true, answer: flipPath("History")},
		{name: "answer-exists-false", binding: true, answer: func(p string, b []byte) []byte {
			atomic.StoreInt32(&applied, 1)
			return mutJSON(b, func(m map[string]interface{}) { m["Exists"] = false })
		}},
		{name: "answer-actual-version+1", binding: true, answer: func(p string, b []byte) []byte {
			return mutJSON(b, func(m map[string]interface{}) {
				if v, ok := m["ActualVersion"].(float64); ok {
					m["ActualVersion"] = v + 1
					atomic.StoreInt32(&applied, 1)
				}
			})
		}},
	}
	monitorAlts := []alteration{
		{name: "untouched"},
		{name: "gossiped-first-history-digest", binding: true, gossip: func(b *protocol.BatchSnapshots, r *lib.Rand) {
			b.Snapshots[0].Snapshot.HistoryDigest = flipD(b.Snapshots[0].Snapshot.HistoryDigest)
		}},
		{name: "gossiped-last-history-digest", binding: true, gossip: func(b *protocol.BatchSnapshots, r *lib.Rand) {
			l := b.Snapshots[len(b.Snapshots)-1].Snapshot
			l.HistoryDigest = flipD(l.HistoryDigest)
		}},
		{name: "gossiped-last-version+1", binding: true, gossip: func(b *protocol.BatchSnapshots, r *lib.Rand) { b.Snapshots[len(b.Snapshots)-1].Snapshot.Version++ }},
		{name: "gossiped-first-version-1", binding: true, gossip: func(b *protocol.BatchSnapshots, r *lib.Rand) { b.Snapshots[0].Snapshot.Version-- }},
		{name: "answer-audit-path-entry", binding: true, answer: flipPath("AuditPath")},
		{name: "answer-end+1", binding: true, answer: func(p string, b []byte) []byte {
			return mutJSON(b, func(m map[string]interface{}) {
				if v, ok := m["End"].(float64); ok {
					m["End"] = v + 1
					atomic.StoreInt32(&applied, 1)
				}
			})
		}},
	}
	exec := func(agent string, a *gossip.Agent, f gossip.TaskFactory, alts []alteration, first, size int, r *lib.Rand, idx int) {
		for _, alt := range alts {
			cs := c19case{ID: fmt.Sprintf("%s-b%d-%s", agent, idx, alt.name), Agent: agent, First: uint64(first), Size: size, Alteration: alt.name, Binding: alt.binding}
			if c.Only != "" && c.Only != cs.ID {
				continue
			}
			b := batchAt(first, size)
			if len(b.Snapshots) == 0 {
				continue
			}
			if (alt.name == "gossiped-first-version-1") && b.Snapshots[0].Snapshot.Version == 0 {
				continue
			}
			if alt.gossip != nil {
				alt.gossip(b, r)
			}
			store.mu.Lock()
			store.tamper = alt.stored
			store.mu.Unlock()
			proxy.set(alt.answer)
			atomic.StoreInt32(&applied, 0)
			// a fresh client per case: the client marks an endpoint dead after a rejected request, which
			// would make the next (honest) case fail with "no QED node available"
			if qed, err := newQed(); err == nil {
				a.Qed = qed
			}
			before := alerts.count()
			terr, pan := run(a, f, b)
			after := alerts.drain()
			if alt.answer != nil && atomic.LoadInt32(&applied) == 0 {
				c.Count("answer_alterations_not_applicable(skipped)", 1)
				store.mu.Lock()
				store.tamper = nil
				store.mu.Unlock()
				proxy.set(nil)
				continue
			}
			store.mu.Lock()
			store.tamper = nil
			store.mu.Unlock()
			proxy.set(nil)
			cs.Alerts = after - before
			c.Count("agent_tasks_run", 1)
			c.Seen("alterations", agent+":"+alt.name)
			if pan != "" {
				c.Violation(fmt.Sprintf("C19:%s:%s:task-panicked", agent, alt.name), fmt.Sprintf("%s task panicked on a batch with alteration '%s': %s", agent, alt.name, pan), cs)
				continue
			}
			switch {
			case alt.binding && cs.Alerts == 0:
				c.Violation(fmt.Sprintf("C19:%s:%s:no-alert", agent, alt.name), fmt.Sprintf("%s raised no alert although its verification cannot succeed (alteration '%s', batch versions %d..%d, task error: %v)", agent, alt.name, first, first+size-1, terr), cs)
			case !alt.binding && cs.Alerts > 0:
				alerts.mu.Lock()
				lastMsg := alerts.msgs[len(alerts.msgs)-1]
				alerts.mu.Unlock()
				c.Violation(fmt.Sprintf("C19:%s:honest:false-alert", agent), fmt.Sprintf("%s raised %d alert(s) for an untouched batch of an honest log (versions %d..%d): %s", agent, cs.Alerts, first, first+size-1, lastMsg), cs)
			}
			c.Case(fmt.Sprintf("%s/%s/size%d", agent, alt.name, minGI(size, 4)), true)
			if idx == 0 && (alt.name == "untouched" || alt.name == "answer-hyper-path-entry") {
				c.Sample(cs)
			}
		}
	}
	rb := c.Rand("batches")
	nb := c.Q(14, 120)
	for i := 0; i < nb; i++ {
		size := rb.Pick(1, 2, 3, 5, 10)
		first := rb.Intn(total - size)
		if i == 0 {
			first = 0
		}
		if i == 1 {
			first, size = total-3, 3
		}
		if i == 2 {
			first, size = total-1, 1 // the batch's first snapshot IS the log's current version
		}
		exec("auditor", aud, memF, auditorAlts, first, size, rb, i)
		exec("monitor", mon, incF, monitorAlts, first, size, rb, i)
	}

	// ---------- back to back through the real BatchProcessor and SimpleTasksManager ----------
	// two different batches reach an agent within one task-manager tick: each must be judged on its own
	for _, kind := range []string{"auditor", "monitor"} {
		for rep := 0; rep < c.Q(3, 12); rep++ {
			id := fmt.Sprintf("%s-backtoback-%d", kind, rep)
			if c.Only != "" && c.Only != id {
				continue
			}
			a, an, err := mkAgent(kind + "-bb")
			if err != nil {
				continue
			}
			tm := gossip.NewSimpleTasksManager(200*time.Millisecond, 10)
			a.Tasks = tm
			tm.Start()
			f := memF
			if kind == "monitor" {
				f = incF
			}
			bp := gossip.NewBatchProcessor(a, []gossip.TaskFactory{f}, nil)
			a.In.Subscribe(gossip.BatchMessageType, bp, 255)
			size := rb.Pick(1, 2, 4)
			f1 := rb.Intn(total/2 - size)
			f2 := total/2 + rb.Intn(total/2-size)
			altered, honest := batchAt(f1, size), batchAt(f2, size)
			altered.Snapshots[0].Snapshot.HistoryDigest = flipD(altered.Snapshots[0].Snapshot.HistoryDigest)
			order := []*protocol.BatchSnapshots{altered, honest}
			if rep%2 == 1 {
				order = []*protocol.BatchSnapshots{honest, altered}
			}
			before := alerts.drain()
			for _, b := range order {
				payload, _ := b.Encode()
				a.In.Publish(&gossip.Message{Kind: gossip.BatchMessageType, TTL: 0, Payload: payload})
			}
			// wait for both tasks: two ticks, then the notifier
			time.Sleep(700 * time.Millisecond)
			got := alerts.drain() - before
			tm.Stop()
			bp.Stop()
			an.Stop()
			c.Count("back_to_back_pairs_through_processor", 1)
			cs := c19case{ID: id, Agent: kind, First: uint64(f1), Size: size, Alteration: "two batches within one tick: one with an altered history digest, one honest", Binding: true, Alerts: got}
			if got == 0 {
				c.Violation(fmt.Sprintf("C19:%s:back-to-back:no-alert", kind), fmt.Sprintf("%s: two different batches arrived within one task-manager tick (versions %d.. altered, %d.. honest); no alert was raised for the altered one", kind, f1, f2), cs)
			} else if got > 1 {
				c.Violation(fmt.Sprintf("C19:%s:back-to-back:false-alert", kind), fmt.Sprintf("%s: two batches within one tick, one altered: %d alerts were raised (the honest batch was alerted on too)", kind, got), cs)
			}
			c.Case(fmt.Sprintf("%s/back-to-back/size%d/order%d", kind, size, rep%2), true)
		}
	}
	// ---------- an honest batch, later the same signed snapshots with one digest altered ----------
	// agents do not check signatures: "already processed" must mean the same content, not the same signatures
	for _, kind := range []string{"auditor", "monitor"} {
		for rep := 0; rep < c.Q(2, 8); rep++ {
			id := fmt.Sprintf("%s-altered-redelivery-%d", kind, rep)
			if c.Only != "" && c.Only != id {
				continue
			}
			a, an, err := mkAgent(kind + "-ar")
			if err != nil {
				continue
			}
			tm := gossip.NewSimpleTasksManager(100*time.Millisecond, 10)
			a.Tasks = tm
			tm.Start()
			f := memF
			if kind == "monitor" {
				f = incF
			}
			bp := gossip.NewBatchProcessor(a, []gossip.TaskFactory{f}, nil)
			a.In.Subscribe(gossip.BatchMessageType, bp, 255)
			size := rb.Pick(2, 3, 4)
			f1 := rb.Intn(total - size)
			honest, altered := batchAt(f1, size), batchAt(f1, size)
			k := 0 // the auditor verifies the first snapshot of a batch, the monitor the first against the last
			if kind == "monitor" && rep%2 == 0 {
				k = size - 1
			}
			altered.Snapshots[k].Snapshot.HistoryDigest = flipD(altered.Snapshots[k].Snapshot.HistoryDigest)
			before := alerts.drain()
			payload, _ := honest.Encode()
			a.In.Publish(&gossip.Message{Kind: gossip.BatchMessageType, TTL: 0, Payload: payload})
			time.Sleep(500 * time.Millisecond)
			mid := alerts.drain() - before
			payload, _ = altered.Encode()
			a.In.Publish(&gossip.Message{Kind: gossip.BatchMessageType, TTL: 0, Payload: payload})
			time.Sleep(600 * time.Millisecond)
			got := alerts.drain() - before - mid
			tm.Stop()
			bp.Stop()
			an.Stop()
			c.Count("altered_redeliveries_through_processor", 1)
			cs := c19case{ID: id, Agent: kind, First: uint64(f1), Size: size, Alteration: fmt.Sprintf("the honest batch first, then the same signed snapshots with the history digest of snapshot #%d altered", k), Binding: true, Alerts: got}
			if mid > 0 {
				c.Violation(fmt.Sprintf("C19:%s:honest:false-alert", kind), fmt.Sprintf("%s raised %d alert(s) for an untouched batch of an honest log (versions %d..%d) delivered through the processor", kind, mid, f1, f1+size-1), cs)
			} else if got == 0 {
				c.Violation(fmt.Sprintf("C19:%s:altered-redelivery:no-alert", kind), fmt.Sprintf("%s: batch %d..%d was processed, then arrived again with the same signatures and an altered history digest: no alert was raised", kind, f1, f1+size-1), cs)
			}
			c.Case(fmt.Sprintf("%s/altered-redelivery/size%d/k%d", kind, size, k), true)
		}
	}
	// ---------- a burst of failing verifications against a slow alert service ----------
	if c.Only == "" || c.Only == "alert-burst" {
		a, an0, err := mkAgent("auditor-burst")
		if err == nil {
			an0.Stop()
			// the production notifier: queue of 10, 200 ms timeouts; the alert service answers after 100 ms
			n := gossip.NewSimpleNotifier([]string{alerts.srv.URL}, 10, 200*time.Millisecond, 200*time.Millisecond, nil)
			n.Start()
			a.Notifier = n
			alerts.mu.Lock()
			alerts.delay = 100 * time.Millisecond
			alerts.mu.Unlock()
			before := alerts.drain()
			nburst := c.Q(30, 60)
			var wg sync.WaitGroup
			for i := 0; i < nburst; i++ {
				b := batchAt(rb.Intn(total-1), 1)
				b.Snapshots[0].Snapshot.HistoryDigest = flipD(b.Snapshots[0].Snapshot.HistoryDigest)
				wg.Add(1)
				go func(b *protocol.BatchSnapshots) {
					defer wg.Done()
					run(a, memF, b) // every request of these tasks succeeds (the alteration is in the gossiped snapshot), so one client can be shared
				}(b)
			}
			wg.Wait()
			deadline := time.Now().Add(time.Duration(nburst)*150*time.Millisecond + 5*time.Second)
			for time.Now().Before(deadline) && alerts.count()-before < nburst {
				time.Sleep(50 * time.Millisecond)
			}
			got := alerts.count() - before
			alerts.mu.Lock()
			alerts.delay = 0
			alerts.mu.Unlock()
			n.Stop()
			c.Count("alert_burst_alerts_expected", int64(nburst))
			c.Count("alert_burst_alerts_received", int64(got))
			if got < nburst {
				c.Violation("C19:auditor:alert-burst:alerts-lost", fmt.Sprintf("%d failing verifications at once against an alert service answering in 100 ms: only %d alerts arrived", nburst, got), map[string]string{"id": "alert-burst"})
			}
			c.Case("auditor/alert-burst", true)
		}
	}

	// ---------- publisher ----------
	pub, pubN, err := mkAgent("publisher")
	if err != nil {
		c.Inconclusive("agent: " + err.Error())
		return
	}
	defer pubN.Stop()
	pubF := cmd.VerifPublisherFactory(log.L())
	expect := map[string]bool{}
	deliver := func(b *protocol.BatchSnapshots) {
		for _, ss := range b.Snapshots {
			expect[string(ss.Signature)] = true
		}
		if _, pan := run(pub, pubF, b); pan != "" {
			c.Violation("C19:publisher:task-panicked", "publisher task panicked: "+pan, nil)
		}
		c.Count("publisher_tasks_run", 1)
	}
	rp := c.Rand("publisher")
	// overlapping batches while the first one is still being forwarded (slow store): the second task starts
	// only after the first one's request has reached the store, so on correct code the shared snapshots are
	// already marked as seen
	for i := 0; i < c.Q(6, 40); i++ {
		size := rp.Pick(3, 5, 8)
		first := rp.Intn(total - 2*size)
		b1, b2 := batchAt(first, size), batchAt(first+size-1-rp.Intn(2), size)
		for _, ss := range append(append([]*protocol.SignedSnapshot{}, b1.Snapshots...), b2.Snapshots...) {
			expect[string(ss.Signature)] = true
		}
		fresh := false
		store.mu.Lock()
		for _, ss := range b1.Snapshots {
			if store.received[string(ss.Signature)] == 0 {
				fresh = true
			}
		}
		gate, arrived := make(chan struct{}), make(chan struct{})
		if fresh {
			store.gate, store.arrived = gate, arrived
		}
		store.mu.Unlock()
		doneA := make(chan struct{})
		go func() { run(pub, pubF, b1); close(doneA) }()
		if fresh {
			select {
			case <-arrived:
				run(pub, pubF, b2)
				c.Count("publisher_overlaps_while_first_forward_in_flight", 1)
			case <-doneA: // nothing new in b1 after all
				run(pub, pubF, b2)
			case <-time.After(10 * time.Second):
				c.Inconclusive("publisher: first batch never reached the store")
			}
			close(gate)
		} else {
			run(pub, pubF, b2)
		}
		<-doneA
		c.Count("publisher_tasks_run", 2)
	}
	for i := 0; i < c.Q(40, 400); i++ {
		size := rp.Pick(1, 2, 5, 10, 30)
		first := rp.Intn(total - size)
		b := batchAt(first, size)
		switch rp.Intn(4) {
		case 0: // same batch x r
			for k := 0; k < rp.Range(1, 4); k++ {
				deliver(b)
			}
		case 1: // overlapping batches
			deliver(b)
			deliver(batchAt(first+size/2, size))
		case 2: // reordered copy
			deliver(b)
			rb2 := cloneBatch(b)
			for x := range rb2.Snapshots {
				y := rp.Intn(x + 1)
				rb2.Snapshots[x], rb2.Snapshots[y] = rb2.Snapshots[y], rb2.Snapshots[x]
			}
			deliver(rb2)
		default:
			deliver(b)
		}
	}
	// through the real BatchProcessor, concurrently, same message from several "peers"
	tm := gossip.NewSimpleTasksManager(5*time.Millisecond, 64)
	pub.Tasks = tm
	tm.Start()
	bp := gossip.NewBatchProcessor(pub, []gossip.TaskFactory{pubF}, nil)
	pub.In.Subscribe(gossip.BatchMessageType, bp, 255)
	// different batches back to back (within one tick)
	for i := 0; i < c.Q(4, 20); i++ {
		b1, b2 := batchAt(rp.Intn(total/2-4), 4), batchAt(total/2+rp.Intn(total/2-4), 4)
		for _, b := range []*protocol.BatchSnapshots{b1, b2} {
			for _, ss := range b.Snapshots {
				expect[string(ss.Signature)] = true
			}
			payload, _ := b.Encode()
			pub.In.Publish(&gossip.Message{Kind: gossip.BatchMessageType, TTL: 0, Payload: payload})
		}
		c.Count("publisher_back_to_back_pairs", 1)
		time.Sleep(30 * time.Millisecond)
	}
	var wg sync.WaitGroup
	for i := 0; i < c.Q(10, 80); i++ {
		b := batchAt(rp.Intn(total-5), 5)
		for _, ss := range b.Snapshots {
			expect[string(ss.Signature)] = true
		}
		payload, _ := b.Encode()
		for g := 0; g < 4; g++ {
			wg.Add(1)
			go func() {
				defer wg.Done()
				pub.In.Publish(&gossip.Message{Kind: gossip.BatchMessageType, TTL: 0, Payload: payload})
			}()
		}
	}
	wg.Wait()
	// wait until the task manager is idle and the store count is stable
	stableSince, last := time.Now(), -1
	deadline := time.Now().Add(15 * time.Second)
	for time.Now().Before(deadline) {
		store.mu.Lock()
		n := store.batches
		store.mu.Unlock()
		if n != last || tm.Len() > 0 {
			last, stableSince = n, time.Now()
		} else if time.Since(stableSince) > 600*time.Millisecond {
			break
		}
		time.Sleep(30 * time.Millisecond)
	}
	tm.Stop()
	bp.Stop()
	store.mu.Lock()
	dups, missing := 0, 0
	for sig := range expect {
		switch n := store.received[sig]; {
		case n == 0:
			missing++
		case n > 1:
			dups++
		}
	}
	c.Count("publisher_signatures_expected", int64(len(expect)))
	c.Count("publisher_batches_received_by_store", int64(store.batches))
	store.mu.Unlock()
	if dups > 0 {
		c.Violation("C19:publisher:forwarded-twice", fmt.Sprintf("%d signed snapshots reached the snapshot store more than once across redelivery patterns", dups), nil)
	}
	if missing > 0 {
		c.Violation("C19:publisher:never-forwarded", fmt.Sprintf("%d signed snapshots delivered to the publisher never reached the snapshot store", missing), nil)
	}
	c.Case("publisher/redelivery", len(expect) > 10)
}

func minGI(a, b int) int {
	if a < b {
		return a
	}
	return b
}
