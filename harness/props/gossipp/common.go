package gossipp

import (
	"bufio"
	"context"
	"fmt"
	"io/ioutil"
	"os"
	"os/exec"
	"path/filepath"
	"sort"
	"strings"
	"sync"
	"time"

	"qedverif/lib"
)

// parallel runs f(i) for i in [0,n) on up to w workers.
func parallel(n, w int, f func(i int)) {
	var wg sync.WaitGroup
	ch := make(chan int)
	for k := 0; k < w; k++ {
		wg.Add(1)
		go func() {
			defer wg.Done()
			for i := range ch {
				f(i)
			}
		}()
	}
	for i := 0; i < n; i++ {
		ch <- i
	}
	close(ch)
	wg.Wait()
}

// onlyMatch: replay filter. c.Only == "" runs everything; otherwise only the case whose id equals c.Only
// (a trailing '*' in c.Only selects a whole family, e.g. "route-*").
func onlyMatch(c *lib.Ctx, id string) bool {
	if c.Only == "" || c.Only == id {
		return true
	}
	if strings.HasSuffix(c.Only, "*") {
		return strings.HasPrefix(id, strings.TrimSuffix(c.Only, "*"))
	}
	return false
}

// ---------- child processes ----------

type childResult struct {
	ExitCode  int
	TimedOut  bool
	StartErr  string
	Stderr    string // path
	Stdout    string // path
	RaceLogs  []string
	RaceBuild bool
}

func qvBin(race bool) string {
	if race {
		p := os.Getenv("QV_RACE_BIN")
		if p == "" {
			return ""
		}
		if _, err := os.Stat(p); err != nil {
			return ""
		}
		return p
	}
	if p := os.Getenv("QV_BIN"); p != "" {
		if _, err := os.Stat(p); err == nil {
			return p
		}
	}
	p, _ := os.Executable()
	return p
}

// runChild spawns `qv worker <name> args...` (race build if race), logs the command to
// dir/commands.log before issuing it, captures stdout/stderr into files. The watchdog
// only bounds the run; its firing is never a verdict by itself.
func runChild(dir string, race bool, watchdog time.Duration, name string, args ...string) childResult {
	res := childResult{RaceBuild: race}
	bin := qvBin(race)
	if bin == "" {
		res.StartErr = "no binary (QV_RACE_BIN unset?)"
		return res
	}
	os.MkdirAll(dir, 0755)
	res.Stderr = filepath.Join(dir, name+".stderr")
	res.Stdout = filepath.Join(dir, name+".stdout")
	full := append([]string{"worker", name}, args...)
	if f, err := os.OpenFile(filepath.Join(dir, "commands.log"), os.O_APPEND|os.O_CREATE|os.O_WRONLY, 0644); err == nil {
		fmt.Fprintf(f, "%s %s %s\n", time.Now().Format(time.RFC3339), bin, strings.Join(full, " "))
		f.Close()
	}
	ctx, cancel := context.WithTimeout(context.Background(), watchdog)
	defer cancel()
	cmd := exec.CommandContext(ctx, bin, full...)
	se, _ := os.Create(res.Stderr)
	so, _ := os.Create(res.Stdout)
	defer se.Close()
	defer so.Close()
	cmd.Stderr = se
	cmd.Stdout = so
	env := os.Environ()
	if race {
		lp := filepath.Join(dir, name+".race")
		env = append(env, "GORACE=halt_on_error=0 history_size=3 log_path="+lp)
	}
	cmd.Env = env
	err := cmd.Run()
	if ctx.Err() != nil {
		res.TimedOut = true
	}
	if err != nil {
		if ee, ok := err.(*exec.ExitError); ok {
			res.ExitCode = ee.ExitCode()
		} else {
			res.StartErr = err.Error()
		}
	}
	if race {
		m, _ := filepath.Glob(filepath.Join(dir, name+".race.*"))
		sort.Strings(m)
		res.RaceLogs = m
	}
	return res
}

// ---------- race report parsing ----------

type raceReport struct {
	A, B   string // innermost QED frame of each of the two accesses (short form)
	TopA   string // Topology-level frame of access A ("" if none)
	TopB   string
	ViaA   string // outermost QED frame of access A (entry point: Agent.Send, eventDelegate.NotifyJoin, Agent.VerifRoute ...)
	ViaB   string
	Pair   string // sorted "X/Y" using the Topology-level frame when present, else innermost QED frame
	InQED  bool   // both accesses have a frame in github.com/bbva/qed
	Sample string
}

// shortFrame turns "github.com/bbva/qed/gossip.(*Topology).Each" into "Topology.Each".
func shortFrame(f string) string {
	f = strings.TrimSpace(f)
	f = strings.TrimSuffix(f, "()")
	i := strings.LastIndex(f, "/")
	s := f[i+1:] // gossip.(*Topology).Each
	if j := strings.Index(s, "."); j >= 0 {
		pkg := s[:j]
		rest := s[j+1:]
		rest = strings.Replace(rest, "(*", "", -1)
		rest = strings.Replace(rest, ")", "", -1)
		rest = strings.Replace(rest, "(", "", -1)
		if pkg == "gossip" {
			return rest
		}
		return pkg + "." + rest
	}
	return s
}

// parseRaceLogs returns the reports found in the given files (race detector output).
func parseRaceLogs(paths []string) []raceReport {
	var out []raceReport
	for _, p := range paths {
		f, err := os.Open(p)
		if err != nil {
			continue
		}
		sc := bufio.NewScanner(f)
		sc.Buffer(make([]byte, 1<<20), 1<<24)
		var block []string
		in := false
		flush := func() {
			if len(block) > 0 {
				out = append(out, parseRaceBlock(block))
			}
			block = nil
		}
		for sc.Scan() {
			line := sc.Text()
			if strings.Contains(line, "WARNING: DATA RACE") {
				flush()
				in = true
				block = append(block, line)
				continue
			}
			if in {
				if strings.HasPrefix(line, "==================") {
					flush()
					in = false
					continue
				}
				block = append(block, line)
			}
		}
		flush()
		f.Close()
	}
	return out
}

func parseRaceBlock(lines []string) raceReport {
	var r raceReport
	// sections: the first two stacks are the two accesses ("Write at", "Previous read at", "Read at", ...)
	sec := -1
	inner := [2]string{}
	top := [2]string{}
	via := [2]string{}
	for _, l := range lines {
		t := strings.TrimSpace(l)
		lower := strings.ToLower(t)
		if strings.HasPrefix(lower, "write at") || strings.HasPrefix(lower, "read at") ||
			strings.HasPrefix(lower, "previous write at") || strings.HasPrefix(lower, "previous read at") ||
			strings.HasPrefix(lower, "atomic") || strings.HasPrefix(lower, "previous atomic") {
			sec++
			continue
		}
		if strings.HasPrefix(t, "Goroutine ") {
			sec = 99
			continue
		}
		if sec < 0 || sec > 1 {
			continue
		}
		if !strings.HasSuffix(t, "()") || !strings.Contains(t, "github.com/bbva/qed/") {
			continue
		}
		sf := shortFrame(t)
		if inner[sec] == "" {
			inner[sec] = sf
		}
		if top[sec] == "" && strings.HasPrefix(sf, "Topology.") {
			top[sec] = sf
		}
		if !strings.Contains(sf, ".func") {
			via[sec] = sf
		}
	}
	r.ViaA, r.ViaB = via[0], via[1]
	r.A, r.B = inner[0], inner[1]
	r.TopA, r.TopB = top[0], top[1]
	r.InQED = inner[0] != "" && inner[1] != ""
	x, y := inner[0], inner[1]
	if top[0] != "" {
		x = top[0]
	}
	if top[1] != "" {
		y = top[1]
	}
	if x == "" {
		x = "?"
	}
	if y == "" {
		y = "?"
	}
	if x > y {
		x, y = y, x
	}
	r.Pair = x + "/" + y
	n := len(lines)
	if n > 40 {
		n = 40
	}
	r.Sample = strings.Join(lines[:n], "\n")
	return r
}

// crashInfo describes a fatal error / panic found in a child's stderr.
type crashInfo struct {
	Kind   string // "concurrent-map-iteration-and-write", "nil-dereference", "panic", ...
	Frame  string // innermost QED frame of the crashing goroutine (short)
	Top    string // Topology-level frame of the crashing goroutine, if any
	Sample string
}

// parseCrash looks for "fatal error:" / "panic:" in a stderr file and extracts the first goroutine's QED frames.
func parseCrash(path string) *crashInfo {
	buf, err := ioutil.ReadFile(path)
	if err != nil {
		return nil
	}
	lines := strings.Split(string(buf), "\n")
	start := -1
	for i, l := range lines {
		if strings.HasPrefix(l, "fatal error:") || strings.HasPrefix(l, "panic:") {
			start = i
			break
		}
	}
	if start < 0 {
		return nil
	}
	ci := &crashInfo{}
	head := lines[start]
	switch {
	case strings.Contains(head, "concurrent map iteration and map write"):
		ci.Kind = "concurrent-map-iteration-and-write"
	case strings.Contains(head, "concurrent map read and map write"):
		ci.Kind = "concurrent-map-read-and-write"
	case strings.Contains(head, "concurrent map writes"):
		ci.Kind = "concurrent-map-writes"
	case strings.Contains(head, "nil pointer dereference") || strings.Contains(head, "invalid memory address"):
		ci.Kind = "nil-dereference"
	case strings.Contains(head, "index out of range") || strings.Contains(head, "slice bounds out of range"):
		ci.Kind = "index-out-of-range"
	default:
		ci.Kind = "panic"
	}
	// first goroutine stack after the header
	g := -1
	for i := start + 1; i < len(lines); i++ {
		if strings.HasPrefix(lines[i], "goroutine ") {
			g = i
			break
		}
	}
	if g >= 0 {
		for i := g + 1; i < len(lines) && strings.TrimSpace(lines[i]) != ""; i++ {
			l := lines[i]
			if strings.HasPrefix(l, "\t") || !strings.Contains(l, "github.com/bbva/qed/") {
				continue
			}
			// "github.com/bbva/qed/gossip.(*Topology).Each(0xc..., ...)"
			if k := strings.LastIndex(l, "("); k > 0 {
				sf := shortFrame(l[:k])
				if ci.Frame == "" {
					ci.Frame = sf
				}
				if ci.Top == "" && strings.HasPrefix(sf, "Topology.") {
					ci.Top = sf
				}
			}
		}
	}
	end := start + 40
	if end > len(lines) {
		end = len(lines)
	}
	ci.Sample = strings.Join(lines[start:end], "\n")
	return ci
}

func tailFile(path string, n int) string {
	buf, err := ioutil.ReadFile(path)
	if err != nil {
		return ""
	}
	lines := strings.Split(string(buf), "\n")
	if len(lines) > n {
		lines = lines[len(lines)-n:]
	}
	return strings.Join(lines, "\n")
}
