package tree

import (
	"encoding/json"
	"fmt"

	"github.com/bbva/qed/balloon"
	"github.com/bbva/qed/crypto/hashing"
	"github.com/bbva/qed/protocol"

	"qedverif/lib"
)

// A candidate is what an adversarial server sends for a queried digest.
type candidate struct {
	Strategy string
	Queried  []byte // the digest the client asked about (and verifies with)
	Res      *protocol.MembershipResult
}

type c02case struct {
	ID       string `json:"id"`
	Family   string `json:"family"`
	N        int    `json:"n"`
	Strategy string `json:"strategy"`
	Queried  string `json:"queried_digest"`
	Answer   string `json:"answer_json"`
	Pairing  string `json:"snapshot_pairing"`
}

func cloneRes(r *protocol.MembershipResult) *protocol.MembershipResult {
	o := *r
	o.Hyper = map[string]hashing.Digest{}
	for k, v := range r.Hyper {
		o.Hyper[k] = append(hashing.Digest{}, v...)
	}
	o.History = map[string]hashing.Digest{}
	for k, v := range r.History {
		o.History[k] = append(hashing.Digest{}, v...)
	}
	o.KeyDigest = append(hashing.Digest{}, r.KeyDigest...)
	return &o
}

func RunC02(c *lib.Ctx) {
	c.Rule = "case = one candidate answer (queried digest, answer fields, audit paths) assembled by an adversarial generator from genuine answers of seeded logs and of forks (strategies: single-field edits, Exists flips, version triples, key substitution, shortcut-leaf replay for never-added digests sharing a member's prefix, paths of other keys/versions, dropped entries, cross-log splices, over-long (glued) and shortened audit-path entries combined with version fields that cut the leaf off, honest absence answers), sent through the JSON wire form and the real verifier against the authentic snapshots the answer names (history digest of QueryVersion + hyper digest of CurrentVersion, the AutoVerify pairing, and one single snapshot for both trees at each version the answer names and at the last version); an ACCEPTED candidate must claim existence of a digest really inserted at ActualVersion <= QueryVersion; non-trivial = candidate differs from every genuine answer; distinct by (strategy, accepted?, log shape)."
	c.Assume = []string{"ground truth = the harness's record of which digest was inserted at which version", "SHA-256 collision resistance (no collision-based forgeries attempted)", "authentic snapshots = those issued by the implementation for versions that exist"}
	nlogs := c.Q(24, 300)
	r0 := c.Rand("logs")
	type plan struct {
		fam  string
		n    int
		ds   [][]byte
		ops  []Op
		seed uint64
	}
	plans := make([]plan, nlogs)
	for i := range plans {
		r := lib.NewRand(r0.Uint64())
		n := []int{2, 3, 5, 8, 9, 16, 17, 33, 64, 65, 100, 130, 200, 257}[r.Intn(14)]
		plans[i] = plan{Families[i%len(Families)], n, GenDigests(r, Families[i%len(Families)], n+6), nil, r.Uint64()}
		plans[i].ops = GenPartition(r, n, r.Intn(5))
	}
	parallel(nlogs, workersN(), func(pi int) {
		p := plans[pi]
		id := fmt.Sprintf("log%d", pi)
		if c.Only != "" && c.Only != id {
			return
		}
		r := lib.NewRand(p.seed)
		n := p.n
		members := p.ds[:n]
		l, err := NewLog(BPlus, "")
		if err != nil {
			c.Inconclusive(err.Error())
			return
		}
		defer l.Close()
		pos := 0
		for _, op := range p.ops {
			if _, err := l.Apply(members[pos:pos+op.N], op.Bulk); err != nil {
				c.Inconclusive("insert failed: " + err.Error())
				return
			}
			pos += op.N
		}
		cur := uint64(n - 1)
		// a forked log (same prefix, diverging at n/2) for cross-log splices
		fork, _ := NewLog(BPlus, "")
		defer fork.Close()
		fd := append([][]byte{}, members...)
		fd[n/2] = p.ds[n]
		for _, d := range fd {
			fork.Apply([][]byte{d}, false)
		}
		// non-members: random, and digests sharing a member's prefix down to its shortcut leaf
		var absent [][]byte
		absent = append(absent, p.ds[n+1], p.ds[n+2])
		twinOf := map[string][]byte{}
		for k := 0; k < 7; k++ {
			m := members[r.Intn(n)]
			if k >= 4 { // members of the upper half of the log: the ones a lowered CurrentVersion can cut off
				m = members[n-1-r.Intn((n+1)/2)]
			}
			h := l.RY.ShortcutHeight(m)
			if h <= 0 {
				continue
			}
			t := append([]byte{}, m...)
			bit := 256 - 1 - r.Intn(h) // flip a bit below the shortcut height: same position prefix
			t[bit/8] ^= 1 << uint(7-bit%8)
			if _, ok := l.Latest[string(t)]; ok {
				continue
			}
			absent = append(absent, t)
			twinOf[string(t)] = m
		}
		genuine := func(lg *Log, d []byte, q uint64) *protocol.MembershipResult {
			var pr *balloon.MembershipProof
			var err error
			if pan, _ := lib.Recover(func() { pr, err = lg.B.QueryDigestMembershipConsistency(hashing.Digest(d), q) }); pan || err != nil {
				return nil
			}
			return protocol.ToMembershipResult(nil, pr)
		}
		var cands []candidate
		add := func(strategy string, queried []byte, res *protocol.MembershipResult) {
			if res != nil {
				cands = append(cands, candidate{strategy, queried, res})
			}
		}
		versionsPool := func(g *protocol.MembershipResult) []uint64 {
			vs := []uint64{0, 1, cur, cur + 1, cur + 7, 1<<63 - 1, ^uint64(0), uint64(r.Intn(n)), uint64(r.Intn(n))}
			for _, x := range []uint64{g.ActualVersion, g.QueryVersion, g.CurrentVersion} {
				vs = append(vs, x+1)
				if x > 0 {
					vs = append(vs, x-1)
				}
			}
			return vs
		}
		for s := 0; s < c.Q(10, 24); s++ {
			v := uint64(r.Intn(n))
			d := l.RH.Digests[v]
			rep := l.Latest[string(d)]
			qs := queryVersions(rep, cur, false)
			q := qs[r.Intn(len(qs))]
			g := genuine(l, d, q)
			if g == nil {
				continue
			}
			add("genuine", d, cloneRes(g))
			// S1: single-field edits
			x := cloneRes(g)
			x.Exists = false
			add("exists-flipped-to-false(member)", d, x)
			for _, nv := range versionsPool(g) {
				x = cloneRes(g)
				x.ActualVersion = nv
				add("actual-version-edited", d, x)
				x = cloneRes(g)
				x.QueryVersion = nv
				add("query-version-edited", d, x)
				x = cloneRes(g)
				x.CurrentVersion = nv
				add("current-version-edited", d, x)
				x = cloneRes(g)
				x.ActualVersion, x.QueryVersion = nv, nv
				add("actual+query-edited", d, x)
			}
			// S2: answer for another queried digest (member or not)
			o := l.RH.Digests[r.Intn(n)]
			if string(o) != string(d) {
				add("answer-of-another-member", o, cloneRes(g))
				x = cloneRes(g)
				x.KeyDigest = append(hashing.Digest{}, o...)
				add("key-digest-substituted(member)", o, x)
			}
			for _, a := range absent {
				add("answer-of-a-member-for-absent-digest", a, cloneRes(g))
				x = cloneRes(g)
				x.KeyDigest = append(hashing.Digest{}, a...)
				add("key-digest-substituted(absent)", a, x)
			}
			// S5: paths of another key / another (index, version)
			ov := uint64(r.Intn(n))
			og := genuine(l, l.RH.Digests[ov], cur)
			if og != nil && string(l.RH.Digests[ov]) != string(d) {
				x = cloneRes(g)
				x.Hyper = cloneRes(og).Hyper
				add("hyper-path-of-another-key", d, x)
				x = cloneRes(g)
				x.History = cloneRes(og).History
				add("history-path-of-another-event", d, x)
				x = cloneRes(og)
				x.KeyDigest = append(hashing.Digest{}, d...)
				x.ActualVersion = g.ActualVersion
				add("other-answer-with-our-key-and-version", d, x)
			}
			// S6: dropped entries
			for k := range g.Hyper {
				if r.Intn(6) == 0 {
					x = cloneRes(g)
					delete(x.Hyper, k)
					add("hyper-entry-dropped", d, x)
				}
			}
			for k := range g.History {
				if r.Intn(3) == 0 {
					x = cloneRes(g)
					delete(x.History, k)
					add("history-entry-dropped", d, x)
					x = cloneRes(g)
					x.History[k] = flip(x.History[k])
					add("history-entry-altered", d, x)
				}
			}
			x = cloneRes(g)
			x.History = map[string]hashing.Digest{}
			add("history-path-emptied", d, x)
			// S7: cross-log splice (fork's answer against our snapshots)
			if fg := genuine(fork, d, q); fg != nil {
				add("answer-of-a-forked-log", d, fg)
			}
			if fg := genuine(fork, fd[n/2], cur); fg != nil {
				add("fork-only-event", fd[n/2], fg)
			}
		}
		// S9: the complete set of node hashes of the history tree of version q (a server knows all of them):
		// the verifier picks what it needs, whatever index/version the answer names
		allNodes := func(q uint64) map[string]hashing.Digest {
			out := map[string]hashing.Digest{}
			for h := uint16(0); (uint64(1) << h) <= 2*(q+1); h++ {
				for i := uint64(0); i <= q; i += uint64(1) << h {
					out[fmt.Sprintf("%d|%d", i, h)] = l.RH.Node(i, h, q)
				}
			}
			return out
		}
		for s := 0; s < c.Q(6, 12); s++ {
			v := uint64(r.Intn(n))
			d := l.RH.Digests[v]
			a := l.Latest[string(d)]
			g := genuine(l, d, cur)
			if g == nil {
				continue
			}
			for _, q := range []uint64{a, cur, uint64(r.Intn(n)), uint64(r.Intn(n)), a / 2, a - a/3} {
				if q > cur {
					continue
				}
				nodes := allNodes(q)
				for _, av := range []uint64{a, q, uint64(r.Intn(n)), a + 1} {
					x := cloneRes(g)
					x.History = map[string]hashing.Digest{}
					for k, hv := range nodes {
						x.History[k] = hv
					}
					x.QueryVersion, x.ActualVersion = q, av
					add("all-history-nodes-of-version-q", d, x)
				}
			}
		}
		// S3: shortcut-leaf replay for never-added digests sharing a member's position prefix
		for ts, m := range twinOf {
			t := []byte(ts)
			mv := l.Latest[string(m)]
			// the untouched genuine answer of the prefix neighbour, for the never-added digest
			add("unmodified-answer-of-prefix-neighbour", t, genuine(l, m, cur))
			add("unmodified-answer-of-prefix-neighbour", t, genuine(l, m, mv))
			for _, q := range []uint64{cur, mv, 0} {
				g := genuine(l, m, cur)
				if g == nil {
					continue
				}
				x := cloneRes(g)
				x.KeyDigest = append(hashing.Digest{}, t...)
				x.QueryVersion = q
				add("shortcut-leaf-replay", t, x)
				if mv > 0 {
					x = cloneRes(x)
					x.QueryVersion = mv - 1
					add("shortcut-leaf-replay(query<actual)", t, x)
				}
				x = cloneRes(x)
				x.Exists = false
				add("shortcut-leaf-replay(exists=false)", t, x)
			}
		}
		// S10: over-long audit-path entries. Node hashes are taken over the plain concatenation of the children, and
		// entries carry no length: the 64-byte entry L||R under a partial node H(entry||pos) equals the genuine inner
		// node H(L||R||pos). Combined with version fields that make the replay cut the leaf's subtree off (an index
		// above the replayed version), the recomputed root can be authentic without ever using the queried digest.
		gkey := func(i uint64, h uint16) string { return fmt.Sprintf("%d|%d", i, h) }
		glued := func(idx, cv, T uint64) map[string]hashing.Digest {
			out := map[string]hashing.Digest{}
			h := uint16(bitlen(cv))
			i := uint64(0)
			for h > 0 {
				ri := i + uint64(1)<<(h-1)
				if idx < ri {
					if ri <= T {
						out[gkey(ri, h-1)] = l.RH.Node(ri, h-1, T)
					}
					h--
					continue
				}
				if ri > cv { // the replay drops the right subtree (and the leaf) here
					e := append([]byte{}, l.RH.Node(i, h-1, T)...)
					if ri <= T {
						e = append(e, l.RH.Node(ri, h-1, T)...)
					}
					out[gkey(i, h-1)] = e
					return out
				}
				out[gkey(i, h-1)] = l.RH.Node(i, h-1, T)
				i, h = ri, h-1
			}
			return nil // the leaf is reached: nothing is cut off
		}
		for ts, m := range twinOf {
			t := []byte(ts)
			mv := l.Latest[string(m)]
			g := genuine(l, m, cur)
			if g == nil {
				continue
			}
			var lows []uint64
			for cv := uint64(0); cv < mv; cv++ {
				if bitlen(cv) == bitlen(cur) {
					lows = append(lows, cv)
				}
			}
			for k := 0; k < 6 && len(lows) > 0; k++ {
				cv := lows[r.Intn(len(lows))]
				if k == 0 {
					cv = lows[len(lows)-1]
				}
				hp := glued(mv, cv, cur)
				if hp == nil {
					continue
				}
				for _, who := range [][]byte{t, m} {
					// (a) the three version fields as an answer names them, with a lowered CurrentVersion
					x := cloneRes(g)
					x.KeyDigest = append(hashing.Digest{}, who...)
					x.ActualVersion, x.QueryVersion, x.CurrentVersion = mv, cur, cv
					x.History = hp
					add("glued-entry+lowered-current-version", who, x)
					// (b) the same path under a lowered QueryVersion (refused by the version guard as long as it is the replayed one)
					x = cloneRes(x)
					x.QueryVersion, x.CurrentVersion = cv, cur
					add("glued-entry+lowered-query-version", who, x)
					x = cloneRes(x)
					x.QueryVersion, x.CurrentVersion = cv, cv
					add("glued-entry+lowered-query-version", who, x)
				}
			}
		}
		// over-long and shortened entries inside otherwise genuine answers
		for s := 0; s < c.Q(6, 12); s++ {
			v := uint64(r.Intn(n))
			d := l.RH.Digests[v]
			g := genuine(l, d, cur)
			if g == nil {
				continue
			}
			for k := range g.History {
				for k2 := range g.History {
					if k != k2 && r.Intn(4) == 0 {
						x := cloneRes(g)
						x.History[k] = append(append(hashing.Digest{}, g.History[k]...), g.History[k2]...)
						delete(x.History, k2)
						add("history-entries-glued", d, x)
					}
				}
				if r.Intn(3) == 0 {
					x := cloneRes(g)
					x.History[k] = x.History[k][:16+r.Intn(16)]
					add("history-entry-shortened", d, x)
				}
			}
			for k := range g.Hyper {
				if r.Intn(40) == 0 {
					x := cloneRes(g)
					x.Hyper[k] = append(append(hashing.Digest{}, g.Hyper[k]...), g.Hyper[k]...)
					add("hyper-entry-lengthened", d, x)
				}
			}
		}
		// S8: honest answers for absent digests, and edits of them
		for _, a := range absent {
			g := genuine(l, a, cur)
			if g == nil {
				continue
			}
			add("honest-absence-answer", a, cloneRes(g))
			x := cloneRes(g)
			x.Exists = true
			add("absence-answer-claiming-existence", a, x)
			for _, nv := range []uint64{0, cur, uint64(r.Intn(n))} {
				x = cloneRes(g)
				x.Exists = true
				x.ActualVersion = nv
				add("absence-answer-claiming-existence-at-version", a, x)
			}
		}

		// ---- evaluate every candidate through the wire form and the real verifier ----
		for _, cd := range cands {
			buf, err := json.Marshal(cd.Res)
			if err != nil {
				continue
			}
			var back protocol.MembershipResult
			if json.Unmarshal(buf, &back) != nil {
				continue
			}
			var proof *balloon.MembershipProof
			if pan, _ := lib.Recover(func() { proof = protocol.ToBalloonProof(&back, HasherF) }); pan {
				c.Count("rejected_by_panic", 1)
				continue
			}
			truth := false
			if back.Exists && back.ActualVersion <= back.QueryVersion && back.ActualVersion < uint64(n) {
				truth = string(l.RH.Digests[back.ActualVersion]) == string(cd.Queried)
			}
			// authentic snapshots the answer names
			type pairing struct {
				name string
				snap *balloon.Snapshot
			}
			var ps []pairing
			if back.QueryVersion <= cur && back.CurrentVersion <= cur {
				ps = append(ps, pairing{"history@QueryVersion+hyper@CurrentVersion", &balloon.Snapshot{EventDigest: cd.Queried, HistoryDigest: l.Snaps[back.QueryVersion].HistoryDigest, HyperDigest: l.Snaps[back.CurrentVersion].HyperDigest, Version: back.QueryVersion}})
			}
			if back.QueryVersion <= cur { // what MembershipAutoVerify fetches
				s := &balloon.Snapshot{EventDigest: cd.Queried, HistoryDigest: l.Snaps[back.QueryVersion].HistoryDigest, HyperDigest: l.Snaps[back.QueryVersion].HyperDigest, Version: back.QueryVersion}
				if back.CurrentVersion != back.ActualVersion {
					if back.CurrentVersion <= cur {
						s.HyperDigest = l.Snaps[back.CurrentVersion].HyperDigest
						ps = append(ps, pairing{"auto-verify", s})
					}
				} else {
					ps = append(ps, pairing{"auto-verify", s})
				}
			}
			// one authentic snapshot for both trees (client.MembershipVerify with the snapshot of an add), at every version the answer names
			seenS := map[uint64]bool{}
			for _, sv := range []uint64{back.QueryVersion, back.CurrentVersion, back.ActualVersion, cur} {
				if sv <= cur && !seenS[sv] {
					seenS[sv] = true
					ps = append(ps, pairing{fmt.Sprintf("single-snapshot@%s", whichVersion(sv, &back, cur)), &balloon.Snapshot{EventDigest: cd.Queried, HistoryDigest: l.Snaps[sv].HistoryDigest, HyperDigest: l.Snaps[sv].HyperDigest, Version: sv}})
				}
			}
			for _, pg := range ps {
				var ok bool
				pan, _ := lib.Recover(func() { ok = proof.DigestVerify(hashing.Digest(cd.Queried), pg.snap) })
				c.Count("candidates_verified", 1)
				if pan {
					c.Count("rejected_by_panic", 1)
					ok = false
				}
				c.Seen("strategies", cd.Strategy)
				c.Case(fmt.Sprintf("%s/acc%v/n%d", cd.Strategy, ok, bitlen(uint64(n))), cd.Strategy != "genuine")
				if ok {
					c.Count("accepted", 1)
					c.Seen("accepted_strategies", cd.Strategy)
					if !truth {
						cs := c02case{ID: id, Family: p.fam, N: n, Strategy: cd.Strategy, Queried: lib.HexFull(cd.Queried), Answer: string(buf), Pairing: pg.name}
						why := "claims absence"
						if back.Exists {
							why = fmt.Sprintf("claims insertion at version %d (query version %d)", back.ActualVersion, back.QueryVersion)
							if back.ActualVersion > back.QueryVersion {
								why += ", later than the queried version"
							} else {
								why += ", where another digest sits"
							}
						}
						key := "C02:accepted-false-claim:" + classify(&back)
						c.Violation(key, fmt.Sprintf("verifier accepted a false claim (strategy %s, pairing %s): the answer %s", cd.Strategy, pg.name, why), cs)
					}
				} else if cd.Strategy == "genuine" && pg.name == "history@QueryVersion+hyper@CurrentVersion" {
					c.Violation("C02:genuine-rejected", "generator sanity: a genuine answer was rejected", nil)
				}
			}
		}
		if pi < 2 && len(cands) > 3 {
			b, _ := json.Marshal(cands[3].Res)
			if len(b) > 600 {
				b = append(b[:600], []byte("...")...)
			}
			c.Sample(map[string]string{"log": id, "strategy": cands[3].Strategy, "queried": lib.HexFull(cands[3].Queried), "answer": string(b)})
		}
	})
	if c.Counter("candidates_verified") == 0 && c.Violations() == 0 {
		c.Inconclusive("no candidate was evaluated")
	}
}

func whichVersion(sv uint64, r *protocol.MembershipResult, cur uint64) string {
	switch sv {
	case r.QueryVersion:
		return "QueryVersion"
	case r.CurrentVersion:
		return "CurrentVersion"
	case r.ActualVersion:
		return "ActualVersion"
	}
	return "last"
}

// classify gives the stable class of an accepted false claim: which branch of the claim is false.
func classify(r *protocol.MembershipResult) string {
	switch {
	case !r.Exists:
		return "exists=false"
	case r.ActualVersion > r.QueryVersion:
		return "actual>query"
	default:
		return "wrong-digest-at-version"
	}
}
