// Package tree holds the monitors for the tamper-evident core (C01–C04, C13):
// the real balloon driven side by side with the reference trees.
package tree

import (
	"encoding/binary"
	"fmt"
	"os"
	"time"

	"github.com/bbva/qed/balloon"
	"github.com/bbva/qed/crypto/hashing"
	"github.com/bbva/qed/storage"
	"github.com/bbva/qed/storage/bplus"
	"github.com/bbva/qed/storage/rocks"

	"qedverif/lib"
	"qedverif/ref"
)

// ---------- digest families ----------

const (
	FamRandom  = "random"
	FamPrefix  = "shared-prefix"
	FamCounter = "counter"
	FamTwins   = "twins"
	FamMixed   = "mixed"
)

var Families = []string{FamRandom, FamPrefix, FamCounter, FamTwins, FamMixed}

// GenDigests returns n distinct 32-byte digests of the given family.
func GenDigests(r *lib.Rand, fam string, n int) [][]byte {
	seen := map[string]bool{}
	out := make([][]byte, 0, n)
	add := func(d []byte) {
		if !seen[string(d)] {
			seen[string(d)] = true
			out = append(out, d)
		}
	}
	base := r.Bytes(32)
	pbits := r.Pick(8, 16, 23, 24, 25, 31, 32, 64, 100, 128, 200, 231, 232, 233, 240, 248, 250, 254, 255)
	ctr := r.Uint64() >> uint(r.Pick(0, 8, 32, 56))
	for len(out) < n {
		f := fam
		if fam == FamMixed {
			f = []string{FamRandom, FamPrefix, FamCounter, FamTwins}[r.Intn(4)]
		}
		switch f {
		case FamRandom:
			add(r.Bytes(32))
		case FamPrefix:
			d := r.Bytes(32)
			p := pbits
			if r.Intn(4) == 0 { // vary the shared length inside one log
				p = r.Range(1, 255)
			}
			for b := 0; b < p; b++ {
				mask := byte(1) << uint(7-b%8)
				d[b/8] = d[b/8]&^mask | base[b/8]&mask
			}
			add(d)
		case FamCounter:
			d := make([]byte, 32)
			if r.Intn(2) == 0 {
				copy(d, base[:24])
			}
			binary.BigEndian.PutUint64(d[24:], ctr)
			ctr++
			add(d)
		case FamTwins:
			d := r.Bytes(32)
			add(d)
			t := append([]byte{}, d...)
			t[31] ^= 1 << uint(r.Intn(3))
			add(t)
		}
	}
	return out[:n]
}

// GenPartition splits n insertions into operations; size 1 => Add (or AddBulk of one when
// bulkOne), size k>1 => AddBulk.
type Op struct {
	N    int
	Bulk bool
}

func GenPartition(r *lib.Rand, n int, style int) []Op {
	var ops []Op
	left := n
	for left > 0 {
		var k int
		bulk := true
		switch style % 5 {
		case 0: // all singles
			k, bulk = 1, false
		case 1: // all bulks of random size
			k = r.Range(1, 40)
		case 2: // one big bulk
			k = left
		case 3: // mixture
			if r.Intn(2) == 0 {
				k, bulk = 1, false
			} else {
				k = r.Range(1, 70)
			}
		case 4: // powers of two +-1
			k = (1 << uint(r.Range(0, 7))) + r.Range(-1, 1)
			if k < 1 {
				k = 1
			}
		}
		if k > left {
			k = left
		}
		ops = append(ops, Op{k, bulk})
		left -= k
	}
	return ops
}

func PartSig(ops []Op) string {
	singles, bulks, maxb := 0, 0, 0
	for _, o := range ops {
		if o.Bulk {
			bulks++
			if o.N > maxb {
				maxb = o.N
			}
		} else {
			singles++
		}
	}
	return fmt.Sprintf("s%d/b%d/max%d", singles, bulks, maxb)
}

// ---------- stores ----------

func HasherF() hashing.Hasher { return hashing.NewSha256Hasher() }

type Backend string

const (
	Rocks Backend = "rocksdb"
	BPlus Backend = "bplus"
)

func OpenStore(be Backend, dir string) (storage.Store, error) {
	if be == BPlus {
		return bplus.NewBPlusTreeStore(), nil
	}
	return rocks.NewRocksDBStore(dir, time.Duration(0))
}

// ---------- a log built on the real balloon next to the reference ----------

type Log struct {
	Backend Backend
	Dir     string
	Store   storage.Store
	B       *balloon.Balloon
	RH      *ref.Hist
	RY      *ref.Hyper
	Snaps   []*balloon.Snapshot // one per version, as issued
	OpEnd   []uint64            // OpEnd[v] = last version of the operation that inserted v
	Latest  map[string]uint64   // digest -> latest version
}

func NewLog(be Backend, dir string) (*Log, error) {
	st, err := OpenStore(be, dir)
	if err != nil {
		return nil, err
	}
	b, err := balloon.NewBalloon(st, HasherF)
	if err != nil {
		return nil, err
	}
	return &Log{Backend: be, Dir: dir, Store: st, B: b, RH: ref.NewHist(), RY: ref.NewHyper(), Latest: map[string]uint64{}}, nil
}

// Apply performs one operation with the given digests on implementation and reference.
func (l *Log) Apply(digests [][]byte, bulk bool) ([]*balloon.Snapshot, error) {
	var snaps []*balloon.Snapshot
	var muts []*storage.Mutation
	var err error
	if !bulk {
		if len(digests) != 1 {
			return nil, fmt.Errorf("single add with %d digests", len(digests))
		}
		var s *balloon.Snapshot
		s, muts, err = l.B.Add(hashing.Digest(digests[0]))
		snaps = []*balloon.Snapshot{s}
	} else {
		ds := make([]hashing.Digest, len(digests))
		for i, d := range digests {
			ds[i] = hashing.Digest(d)
		}
		snaps, muts, err = l.B.AddBulk(ds)
	}
	if err != nil {
		return nil, err
	}
	if err := l.Store.Mutate(muts, nil); err != nil {
		return nil, err
	}
	for _, d := range digests {
		v := l.RH.Append(d)
		l.RY.Insert(d, v)
		l.Latest[string(d)] = v
	}
	end := l.RH.Len() - 1
	for range digests {
		l.OpEnd = append(l.OpEnd, end)
	}
	l.Snaps = append(l.Snaps, snaps...)
	return snaps, nil
}

// Reopen closes the balloon (and for rocksdb the store) and opens it again on the same data.
func (l *Log) Reopen() error {
	l.B.Close()
	l.B = nil
	if l.Backend == Rocks {
		if err := l.Store.Close(); err != nil {
			return err
		}
		st, err := OpenStore(Rocks, l.Dir)
		if err != nil {
			return err
		}
		l.Store = st
	}
	b, err := balloon.NewBalloon(l.Store, HasherF)
	if err != nil {
		return err
	}
	l.B = b
	return nil
}

func (l *Log) Close() {
	if l.B != nil {
		l.B.Close()
	}
	if l.Store != nil {
		l.Store.Close()
	}
}

func (l *Log) N() uint64 { return l.RH.Len() }

// workersN is the number of logs built concurrently (each holds a 1.15 GB cache whose first
// touch is slow in this VM; see lib.Ballast).
func workersN() int {
	n := 2
	if v := os.Getenv("QV_TREE_WORKERS"); v != "" {
		fmt.Sscan(v, &n)
	}
	return n
}
