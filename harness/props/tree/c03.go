package tree

import (
	"fmt"

	"github.com/bbva/qed/balloon"
	"github.com/bbva/qed/balloon/history"
	"github.com/bbva/qed/crypto/hashing"
	"github.com/bbva/qed/storage/bplus"

	"qedverif/lib"
	"qedverif/ref"
)

type c03case struct {
	ID      string   `json:"id"`
	Family  string   `json:"family"`
	N       int      `json:"n"`
	Part    string   `json:"partition"`
	ForkAt  []int    `json:"fork_points"`
	AllPair bool     `json:"all_pairs"`
	Digests []string `json:"digests,omitempty"`
}

// histOnly builds a bare history tree (cheap) for a forked log and returns its prover.
func histOnly(digests [][]byte) *history.HistoryTree {
	st := bplus.NewBPlusTreeStore()
	t := history.NewHistoryTree(HasherF, st, 300)
	for v, d := range digests {
		_, muts, _ := t.Add(hashing.Digest(d), uint64(v))
		st.Mutate(muts, nil)
	}
	return t
}

func snapH(h []byte, v uint64) *balloon.Snapshot {
	return &balloon.Snapshot{HistoryDigest: h, Version: v}
}

// verifyInc checks proof p against the two digests; the snapshots carry the versions the digests were
// issued for by default (the proof's own Start/End), see verifyIncAt.
func verifyInc(p *balloon.IncrementalProof, hi, hj []byte) (bool, bool) {
	return verifyIncAt(p, hi, hj, p.Start, p.End)
}

// verifyIncAt: the snapshots carry versions vi, vj (what a client holding snapshots vi and vj passes in).
func verifyIncAt(p *balloon.IncrementalProof, hi, hj []byte, vi, vj uint64) (bool, bool) {
	var ok bool
	pan, _ := lib.Recover(func() { ok = p.Verify(snapH(hi, vi), snapH(hj, vj)) })
	return ok && !pan, pan
}

func pairsFor(r *lib.Rand, n int, all bool) [][2]uint64 {
	var out [][2]uint64
	if all {
		for i := 0; i < n; i++ {
			for j := i; j < n; j++ {
				out = append(out, [2]uint64{uint64(i), uint64(j)})
			}
		}
		return out
	}
	seen := map[[2]uint64]bool{}
	add := func(i, j int) {
		if i < 0 || j < 0 || i >= n || j >= n || i > j {
			return
		}
		k := [2]uint64{uint64(i), uint64(j)}
		if !seen[k] {
			seen[k] = true
			out = append(out, k)
		}
	}
	var marks []int
	for p := 1; p <= n; p <<= 1 {
		marks = append(marks, p-2, p-1, p, p+1)
	}
	marks = append(marks, 0, 1, n-2, n-1, n/2, n/3)
	for _, a := range marks {
		for _, b := range marks {
			add(a, b)
		}
	}
	for k := 0; k < 150; k++ {
		a, b := r.Intn(n), r.Intn(n)
		if a > b {
			a, b = b, a
		}
		add(a, b)
	}
	return out
}

func RunC03(c *lib.Ctx) {
	c.Rule = "case = one log on the real balloon (family, size, partition) + forked twins diverging at seeded points; for every pair i<=j (all pairs for n<=64/128, boundary-stratified + random beyond) the genuine incremental proof must verify in-process and after the JSON round trip, and must be rejected with: the start/end digest of every other sampled version, the same-version digests of each fork, the fork's own proof against mixed digests (accepted iff the fork shares the prefix up to i), Start/End swapped or shifted, every audit-path entry altered, every entry dropped (a panic counts as rejection here; totality is C12); non-trivial = n>=3; distinct by (family,n,partition,forks)."
	c.Assume = []string{"history digests used are those issued by the implementation (C04 pins them to the reference)", "fork digests come from the reference history tree and from bare QED history trees fed the forked sequence", "SHA-256 collision resistance"}
	ncases := c.Q(24, 200)
	r0 := c.Rand("cases")
	allLimit := c.Q(48, 128)
	sizes := []int{1, 2, 3, 4, 5, 7, 8, 9, 15, 16, 17, 31, 32, 33, 48, 63, 64, 65, 100, 127, 128, 129, 200, 256, 300}
	// plans are derived sequentially from the seed (determinism), executed in parallel
	type plan struct {
		cs      c03case
		digests [][]byte
		ops     []Op
		forks   []int
		seed    uint64
	}
	plans := make([]plan, ncases)
	for i := range plans {
		r := lib.NewRand(r0.Uint64())
		fam := Families[i%len(Families)]
		n := sizes[r.Intn(len(sizes))]
		if c.Thorough() && i%10 == 9 {
			n = r.Pick(511, 512, 513, 1000, 1025)
		}
		ds := GenDigests(r, fam, n+1) // one spare digest for the fork
		ops := GenPartition(r, n, r.Intn(5))
		forks := []int{0, r.Intn(n), n - 1}
		if n > 2 {
			forks = append(forks, n/2)
		}
		cs := c03case{ID: fmt.Sprintf("c%d", i), Family: fam, N: n, Part: PartSig(ops), ForkAt: forks, AllPair: n <= allLimit}
		if n <= 10 {
			for _, d := range ds[:n] {
				cs.Digests = append(cs.Digests, lib.HexFull(d))
			}
		}
		plans[i] = plan{cs, ds, ops, forks, r.Uint64()}
	}
	parallel(ncases, workersN(), func(pi int) {
		p := plans[pi]
		if c.Only != "" && c.Only != p.cs.ID {
			return
		}
		r := lib.NewRand(p.seed)
		n := p.cs.N
		ds := p.digests[:n]
		l, err := NewLog(BPlus, "")
		if err != nil {
			c.Inconclusive(err.Error())
			return
		}
		defer l.Close()
		pos := 0
		for _, op := range p.ops {
			if _, err := l.Apply(ds[pos:pos+op.N], op.Bulk); err != nil {
				c.Violation("C03:insert-failed", err.Error(), p.cs)
				return
			}
			pos += op.N
		}
		fail := func(key, what string) {
			c.Violation(key, fmt.Sprintf("case %s (n=%d): %s", p.cs.ID, n, what), p.cs)
		}
		// forks: same prefix up to k-1, different digest at k, same digests afterwards
		type fork struct {
			k     int
			roots [][]byte
			tree  *history.HistoryTree
		}
		var forksL []fork
		for _, k := range p.forks {
			fd := make([][]byte, n)
			copy(fd, ds)
			fd[k] = p.digests[n] // the spare digest
			rh := ref.NewHist()
			roots := make([][]byte, n)
			for v, d := range fd {
				rh.Append(d)
				roots[v] = rh.Root(uint64(v))
			}
			forksL = append(forksL, fork{k, roots, histOnly(fd)})
		}
		H := func(v uint64) []byte { return l.Snaps[v].HistoryDigest }
		for _, pr := range pairsFor(r, n, p.cs.AllPair) {
			i, j := pr[0], pr[1]
			var proof *balloon.IncrementalProof
			var qerr error
			pan, msg := lib.Recover(func() { proof, qerr = l.B.QueryConsistency(i, j) })
			c.Count("pairs", 1)
			if pan || qerr != nil {
				fail("C03:query-failed", fmt.Sprintf("consistency query (%d,%d) failed: %v %s", i, j, qerr, msg))
				return
			}
			if ok, _ := verifyInc(proof, H(i), H(j)); !ok {
				fail("C03:genuine-rejected", fmt.Sprintf("genuine incremental proof (%d,%d) rejected", i, j))
				return
			}
			wp, werr := wireIncremental(proof)
			if werr != nil {
				fail("C03:wire", werr.Error())
				return
			}
			if ok, _ := verifyInc(wp, H(i), H(j)); !ok {
				fail("C03:genuine-rejected-wire", fmt.Sprintf("genuine incremental proof (%d,%d) rejected after the JSON round trip", i, j))
				return
			}
			c.Count("genuine_verified", 2)
			neg := func(kind string, pp *balloon.IncrementalProof, hi, hj []byte, detail string) bool {
				c.Count("negatives", 1)
				c.Seen("negative_kinds", kind)
				// the client holds the snapshots of versions i and j, whatever the proof claims
				if ok, _ := verifyIncAt(pp, hi, hj, i, j); ok {
					fail("C03:accepted:"+kind, fmt.Sprintf("pair (%d,%d): proof accepted although %s", i, j, detail))
					return false
				}
				return true
			}
			// other versions' digests
			for _, k := range []uint64{0, i + 1, j + 1, uint64(r.Intn(n)), uint64(n - 1)} {
				if k < uint64(n) && k != i {
					if !neg("start-digest-of-other-version", proof, H(k), H(j), fmt.Sprintf("the start digest is that of version %d", k)) {
						return
					}
				}
				if k < uint64(n) && k != j {
					if !neg("end-digest-of-other-version", proof, H(i), H(k), fmt.Sprintf("the end digest is that of version %d", k)) {
						return
					}
				}
			}
			// forked logs
			for _, f := range forksL {
				k := uint64(f.k)
				if k <= i {
					if !neg("start-digest-of-fork", proof, f.roots[i], H(j), fmt.Sprintf("the start digest comes from a log that diverged at %d", k)) {
						return
					}
				}
				if k <= j {
					if !neg("end-digest-of-fork", proof, H(i), f.roots[j], fmt.Sprintf("the end digest comes from a log that diverged at %d", k)) {
						return
					}
					// the fork's own proof, checked against our start digest and its end digest
					hp, _ := f.tree.ProveConsistency(i, j)
					fp := balloon.NewIncrementalProof(i, j, hp.AuditPath, HasherF())
					ok, _ := verifyInc(fp, H(i), f.roots[j])
					c.Count("fork_own_proofs", 1)
					if k <= i && ok {
						fail("C03:accepted:fork-own-proof", fmt.Sprintf("pair (%d,%d): a fork diverging at %d passes as consistent with our version %d", i, j, k, i))
						return
					}
					if k > i && !ok {
						fail("C03:fork-sharing-prefix-rejected", fmt.Sprintf("pair (%d,%d): a log sharing our prefix up to %d (diverging at %d) is rejected as inconsistent with version %d", i, j, k-1, k, i))
						return
					}
				}
			}
			// both digests replaced by the same foreign value (only meaningful for i == j)
			if i == j {
				for _, f := range forksL {
					if uint64(f.k) <= i {
						if !neg("both-digests-of-fork", proof, f.roots[i], f.roots[i], fmt.Sprintf("both digests come from a log that diverged at %d", f.k)) {
							return
						}
					}
				}
				if k := uint64(r.Intn(n)); k != i {
					if !neg("both-digests-of-other-version", proof, H(k), H(k), fmt.Sprintf("both digests are those of version %d", k)) {
						return
					}
				}
			}
			// versions altered
			if i != j {
				if !neg("start-end-swapped", balloon.NewIncrementalProof(j, i, proof.AuditPath, HasherF()), H(i), H(j), "Start and End are swapped") {
					return
				}
			}
			for _, d := range [][2]int64{{1, 0}, {-1, 0}, {0, 1}, {0, -1}} {
				s, e := int64(i)+d[0], int64(j)+d[1]
				if s < 0 || e < 0 {
					continue
				}
				if !neg("versions-shifted", balloon.NewIncrementalProof(uint64(s), uint64(e), proof.AuditPath, HasherF()), H(i), H(j), fmt.Sprintf("the proof claims versions (%d,%d)", s, e)) {
					return
				}
			}
			// every audit-path entry altered / dropped (bounded per pair for big paths)
			cnt := 0
			for key, val := range proof.AuditPath {
				if cnt++; cnt > 24 {
					break
				}
				alt := history.AuditPath{}
				for k2, v2 := range proof.AuditPath {
					alt[k2] = v2
				}
				nv := append([]byte{}, val...)
				nv[r.Intn(len(nv))] ^= 1 << uint(r.Intn(8))
				alt[key] = nv
				if !neg("entry-altered", balloon.NewIncrementalProof(i, j, alt, HasherF()), H(i), H(j), fmt.Sprintf("audit-path entry %x was altered", key)) {
					return
				}
				delete(alt, key)
				if !neg("entry-dropped", balloon.NewIncrementalProof(i, j, alt, HasherF()), H(i), H(j), fmt.Sprintf("audit-path entry %x was dropped", key)) {
					return
				}
			}
			c.Seen("pair_shapes", fmt.Sprintf("bl%d-%d/eq%v", bitlen(i), bitlen(j), i == j))
		}
		c.Case(fmt.Sprintf("%s/n%d/%s/all%v", p.cs.Family, n, p.cs.Part, p.cs.AllPair), n >= 3)
		if pi < 3 {
			c.Sample(p.cs)
		}
	})
	if c.Counter("genuine_verified") == 0 && c.Violations() == 0 {
		c.Inconclusive("no incremental proof was verified")
	}
}
