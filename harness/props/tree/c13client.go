package tree

// C13 (e): answers decoded by the real client, verified concurrently. A verdict on a decoded answer must equal
// the verdict on the original whoever else is verifying at the same moment: decoded proofs must not share
// mutable state (hashers, buffers) through the client that decoded them. Each goroutine works on its own
// proof objects; only state shared behind the decoder's back can make their verdicts differ.

import (
	"encoding/json"
	"fmt"
	"io/ioutil"
	"net/http"
	"net/http/httptest"
	"sync"
	"sync/atomic"

	"github.com/bbva/qed/balloon"
	"github.com/bbva/qed/client"
	"github.com/bbva/qed/crypto/hashing"
	"github.com/bbva/qed/protocol"

	"qedverif/lib"
)

func c13ConcurrentClient(c *lib.Ctx) {
	if c.Only != "" && c.Only != "client-concurrent" {
		return
	}
	r := c.Rand("client-concurrent")
	n := 90
	ds := GenDigests(r, "random", n)
	l, err := NewLog(BPlus, "")
	if err != nil {
		c.Inconclusive("client-concurrent: " + err.Error())
		return
	}
	defer l.Close()
	for pos := 0; pos < n; {
		k := r.Pick(1, 3, 8)
		if pos+k > n {
			k = n - pos
		}
		if _, err := l.Apply(ds[pos:pos+k], k > 1); err != nil {
			c.Inconclusive("client-concurrent: insert failed: " + err.Error())
			return
		}
		pos += k
	}
	cur := uint64(n - 1)
	answers := map[string][]byte{}
	for _, d := range ds {
		pr, err := l.B.QueryDigestMembershipConsistency(hashing.Digest(d), cur)
		if err != nil {
			c.Inconclusive("client-concurrent: query failed: " + err.Error())
			return
		}
		js, _ := json.Marshal(protocol.ToMembershipResult(nil, pr))
		answers[string(d)] = js
	}
	srv := httptest.NewServer(http.HandlerFunc(func(w http.ResponseWriter, rq *http.Request) {
		body, _ := ioutil.ReadAll(rq.Body)
		var q protocol.MembershipDigest
		if rq.URL.Path != "/proofs/digest-membership" || json.Unmarshal(body, &q) != nil {
			http.Error(w, "unexpected request", http.StatusBadRequest)
			return
		}
		js, ok := answers[string(q.KeyDigest)]
		if !ok {
			http.Error(w, "unknown digest", http.StatusNotFound)
			return
		}
		w.Header().Set("Content-Type", "application/json")
		w.Write(js)
	}))
	defer srv.Close()
	type built struct {
		name string
		mk   func() (*client.HTTPClient, error)
	}
	builders := []built{
		{"options", func() (*client.HTTPClient, error) {
			return client.NewHTTPClient(client.SetHttpClient(&http.Client{}), client.SetURLs(srv.URL), client.SetReadPreference(client.Any),
				client.SetMaxRetries(0), client.SetTopologyDiscovery(false), client.SetHealthChecks(false), client.SetAttemptToReviveEndpoints(false),
				client.SetHasherFunction(hashing.NewSha256Hasher))
		}},
		{"simple", func() (*client.HTTPClient, error) {
			return client.NewSimpleHTTPClient(&http.Client{}, []string{srv.URL}, "")
		}},
	}
	for _, b := range builders {
		var cl *client.HTTPClient
		var err error
		if pan, msg := lib.Recover(func() { cl, err = b.mk() }); pan || err != nil || cl == nil {
			c.Inconclusive(fmt.Sprintf("client-concurrent: client (%s) cannot be built: %v %s", b.name, err, msg))
			continue
		}
		const G = 8
		per := c.Q(8, 24)
		proofs := make([][]*balloon.MembershipProof, G)
		digests := make([][][]byte, G)
		fetchFailed := false
		for g := 0; g < G && !fetchFailed; g++ {
			for k := 0; k < per; k++ {
				d := ds[r.Intn(n)]
				v := cur
				var p *balloon.MembershipProof
				var err error
				if pan, msg := lib.Recover(func() { p, err = cl.MembershipDigest(hashing.Digest(d), &v) }); pan || err != nil || p == nil {
					c.Inconclusive(fmt.Sprintf("client-concurrent: fetch through client (%s) failed: %v %s", b.name, err, msg))
					fetchFailed = true
					break
				}
				proofs[g] = append(proofs[g], p)
				digests[g] = append(digests[g], d)
			}
		}
		lib.Recover(func() { cl.Close() })
		if fetchFailed {
			continue
		}
		snapOf := func(d []byte) *balloon.Snapshot {
			return &balloon.Snapshot{EventDigest: d, HistoryDigest: l.Snaps[cur].HistoryDigest, HyperDigest: l.Snaps[cur].HyperDigest, Version: cur}
		}
		// one at a time: the decoded answers must verify like the originals (which do)
		seqBad := 0
		for g := range proofs {
			for k, p := range proofs[g] {
				ok := false
				lib.Recover(func() { ok = p.DigestVerify(hashing.Digest(digests[g][k]), snapOf(digests[g][k])) })
				if !ok {
					seqBad++
				}
			}
		}
		if seqBad > 0 {
			c.Violation("C13:client-decoded:rejected", fmt.Sprintf("client built through %s: %d of %d genuine answers decoded by the client are rejected against the authentic snapshot (verified one at a time)", b.name, seqBad, G*per), nil)
			continue
		}
		// all goroutines at once, each on its own proof objects
		var rejected, panics, total int64
		var firstMsg atomic.Value
		rounds := c.Q(150, 600)
		var wg sync.WaitGroup
		for g := 0; g < G; g++ {
			wg.Add(1)
			go func(g int) {
				defer wg.Done()
				for round := 0; round < rounds; round++ {
					for k, p := range proofs[g] {
						ok := false
						pan, msg := lib.Recover(func() { ok = p.DigestVerify(hashing.Digest(digests[g][k]), snapOf(digests[g][k])) })
						atomic.AddInt64(&total, 1)
						if pan {
							atomic.AddInt64(&panics, 1)
							firstMsg.CompareAndSwap(nil, msg)
						} else if !ok {
							atomic.AddInt64(&rejected, 1)
						}
					}
				}
			}(g)
		}
		wg.Wait()
		c.Count("client_decoded_concurrent_verifications", total)
		c.Seen("client_construction_paths", b.name)
		c.Case("client-concurrent/"+b.name, true)
		if rejected > 0 || panics > 0 {
			m, _ := firstMsg.Load().(string)
			c.Violation("C13:client-decoded:verdict-differs-under-concurrency", fmt.Sprintf("client built through %s: answers that verify one at a time were rejected %d times and failed internally %d times in %d verifications when %d goroutines verified their own decoded proofs at the same moment %s", b.name, rejected, panics, total, G, m), nil)
		}
	}
}
