package tree

import (
	"bytes"
	"encoding/json"
	"fmt"
	"sort"
	"sync"

	"github.com/bbva/qed/balloon"
	"github.com/bbva/qed/crypto/hashing"
	"github.com/bbva/qed/protocol"

	"qedverif/lib"
)

// wireMembership sends a proof through the public JSON form exactly as api + client do.
func wireMembership(p *balloon.MembershipProof) (*balloon.MembershipProof, *protocol.MembershipResult, error) {
	res := protocol.ToMembershipResult(nil, p)
	buf, err := json.Marshal(res)
	if err != nil {
		return nil, nil, err
	}
	var back protocol.MembershipResult
	if err := json.Unmarshal(buf, &back); err != nil {
		return nil, nil, err
	}
	return protocol.ToBalloonProof(&back, HasherF), &back, nil
}

func wireIncremental(p *balloon.IncrementalProof) (*balloon.IncrementalProof, error) {
	res := protocol.ToIncrementalResponse(p)
	buf, err := json.Marshal(res)
	if err != nil {
		return nil, err
	}
	var back protocol.IncrementalResponse
	if err := json.Unmarshal(buf, &back); err != nil {
		return nil, err
	}
	return protocol.ToIncrementalProof(&back, HasherF), nil
}

// queryVersions returns the stratified set of query versions for an event reported at `rep`
// in a log whose current version is `cur`: rep, rep+1, every 2^j-1, 2^j, 2^j+1 in range, cur-1, cur.
func queryVersions(rep, cur uint64, all bool) []uint64 {
	set := map[uint64]bool{}
	add := func(q uint64) {
		if q >= rep && q <= cur {
			set[q] = true
		}
	}
	if all {
		for q := rep; q <= cur; q++ {
			set[q] = true
		}
	} else {
		add(rep)
		add(rep + 1)
		add(rep + 2)
		add(cur)
		if cur > 0 {
			add(cur - 1)
		}
		for j := uint(0); j < 63; j++ {
			p := uint64(1) << j
			if p > cur+1 {
				break
			}
			add(p - 1)
			add(p)
			add(p + 1)
		}
		add((rep + cur) / 2)
	}
	out := make([]uint64, 0, len(set))
	for q := range set {
		out = append(out, q)
	}
	sort.Slice(out, func(i, j int) bool { return out[i] < out[j] })
	return out
}

type c01case struct {
	ID        string   `json:"id"`
	Family    string   `json:"family"`
	N         int      `json:"n"`
	Backend   string   `json:"backend"`
	Partition string   `json:"partition"`
	Dups      int      `json:"duplicates"`
	CheckAt   []int    `json:"check_after_ops"`
	Digests   []string `json:"digests,omitempty"`
}

// checkMembershipAll verifies the membership property on the current state of l for
// every inserted event and the stratified (or all) query versions.
func checkMembershipAll(c *lib.Ctx, cs *c01case, l *Log, allQ bool) {
	cur := l.N() - 1
	curSnap := l.Snaps[cur]
	fail := func(key, what string) {
		c.Violation(key, fmt.Sprintf("case %s (n=%d, current=%d): %s", cs.ID, cs.N, cur, what), cs)
	}
	done := map[string]bool{}
	var wg sync.WaitGroup
	defer wg.Wait()
	for v := uint64(0); v <= cur; v++ {
		d := l.RH.Digests[v]
		if done[string(d)] {
			continue
		}
		done[string(d)] = true
		rep := l.Latest[string(d)]
		truth := l.RH.VersionsOf(d)
		for _, q := range queryVersions(rep, cur, allQ) {
			var proof *balloon.MembershipProof
			var err error
			pan, msg := lib.Recover(func() {
				if q == cur && v%2 == 0 {
					proof, err = l.B.QueryDigestMembership(hashing.Digest(d))
				} else {
					proof, err = l.B.QueryDigestMembershipConsistency(hashing.Digest(d), q)
				}
			})
			c.Count("membership_queries", 1)
			if pan {
				fail("C01:query-panic", fmt.Sprintf("membership query for event at version %d, query version %d panicked: %s", rep, q, msg))
				return
			}
			if err != nil {
				fail("C01:query-error", fmt.Sprintf("membership query for event reported at %d, query version %d failed: %v", rep, q, err))
				return
			}
			if !proof.Exists {
				fail("C01:not-exists", fmt.Sprintf("event inserted at %v reported absent (query version %d)", truth, q))
				return
			}
			okv := false
			for _, t := range truth {
				if t == proof.ActualVersion {
					okv = true
				}
			}
			if !okv || proof.ActualVersion > q {
				fail("C01:actual-version", fmt.Sprintf("answer names version %d for an event inserted at %v (query version %d)", proof.ActualVersion, truth, q))
				return
			}
			if proof.CurrentVersion != cur {
				fail("C01:current-version", fmt.Sprintf("answer reports current version %d, log is at %d", proof.CurrentVersion, cur))
				return
			}
			if proof.QueryVersion != q {
				fail("C01:query-version", fmt.Sprintf("answer reports query version %d for a query at %d", proof.QueryVersion, q))
				return
			}
			snap := &balloon.Snapshot{EventDigest: d, HistoryDigest: l.Snaps[q].HistoryDigest, HyperDigest: curSnap.HyperDigest, Version: q}
			// verification is independent of the balloon: run it on the verifier pool
			wg.Add(1)
			verifySem <- struct{}{}
			go func(proof *balloon.MembershipProof, d []byte, rep, q uint64) {
				defer wg.Done()
				defer func() { <-verifySem }()
				var ok1, ok2 bool
				pan, msg := lib.Recover(func() { ok1 = proof.DigestVerify(hashing.Digest(d), snap) })
				if pan || !ok1 {
					fail("C01:verify-inprocess", fmt.Sprintf("genuine proof for event at %d, query version %d rejected by the verifier (actual=%d) %s", rep, q, proof.ActualVersion, msg))
					return
				}
				wp, _, werr := wireMembership(proof)
				if werr != nil {
					fail("C01:wire", fmt.Sprintf("wire round trip failed: %v", werr))
					return
				}
				pan, msg = lib.Recover(func() { ok2 = wp.DigestVerify(hashing.Digest(d), snap) })
				if pan || !ok2 {
					fail("C01:verify-wire", fmt.Sprintf("genuine proof for event at %d, query version %d rejected after the JSON round trip %s", rep, q, msg))
					return
				}
				c.Count("proofs_verified", 2)
			}(proof, d, rep, q)
			c.Seen("tree_shapes", fmt.Sprintf("bitlen%d/trail1s%d", bitlen(q), trailingOnes(q)))
		}
	}
}

var verifySem = make(chan struct{}, 12)

func bitlen(v uint64) int {
	n := 0
	for ; v > 0; v >>= 1 {
		n++
	}
	return n
}
func trailingOnes(v uint64) int {
	n := 0
	for ; v&1 == 1; v >>= 1 {
		n++
	}
	return n
}

func RunC01(c *lib.Ctx) {
	c.Rule = "case = one log built on the real balloon (digest family incl. prefix-sharing up to 255 bits and re-inserted duplicates, size crossing powers of two, Add/AddBulk partition, back-end); at seeded check points every inserted event is queried at every query version (logs <= 48) or a stratified set (reported, +1, +2, 2^j-1, 2^j, 2^j+1, mid, current-1, current) and each proof is verified in-process and after the JSON wire round trip against (history digest of snapshot q, hyper digest of current snapshot); non-trivial = log >= 2 events; distinct by (family, n, backend, partition shape, duplicates)."
	c.Assume = []string{"snapshots used for verification are those issued by Add/AddBulk (C04 separately pins them to the reference trees)", "ground truth of 'really inserted at' = the harness's own record of the digest sequence", "SHA-256"}
	ncases := c.Q(36, 600)
	r0 := c.Rand("cases")
	type plan struct {
		cs      c01case
		digests [][]byte
		ops     []Op
		be      Backend
		checkAt map[int]bool
	}
	plans := make([]plan, ncases)
	for i := range plans {
		r := lib.NewRand(r0.Uint64())
		fam := Families[i%len(Families)]
		n := pickSize(r, c, i)
		be := BPlus
		if i%4 == 1 {
			be = Rocks
		}
		ds := GenDigests(r, fam, n)
		dups := 0
		if i%3 == 0 && n >= 4 { // re-insert some earlier events later (in another operation)
			for k := 0; k < 1+n/10; k++ {
				src := r.Intn(n / 2)
				dst := n/2 + r.Intn(n-n/2)
				ds[dst] = ds[src]
				dups++
			}
		}
		ops := GenPartition(r, n, r.Intn(5))
		if dups > 0 { // duplicates inside one bulk are outside the property (distinct events per bulk): split such bulks
			ops = splitDupBulks(ds, ops)
		}
		checkAt := map[int]bool{len(ops) - 1: true}
		var cl []int
		for k := 0; k < 2; k++ {
			x := r.Intn(len(ops))
			checkAt[x] = true
		}
		for x := range checkAt {
			cl = append(cl, x)
		}
		sort.Ints(cl)
		cs := c01case{ID: fmt.Sprintf("c%d", i), Family: fam, N: n, Backend: string(be), Partition: PartSig(ops), Dups: dups, CheckAt: cl}
		if n <= 12 {
			for _, d := range ds {
				cs.Digests = append(cs.Digests, lib.HexFull(d))
			}
		}
		plans[i] = plan{cs, ds, ops, be, checkAt}
	}
	parallel(ncases, workersN(), func(i int) {
		p := plans[i]
		if c.Only != "" && c.Only != p.cs.ID {
			return
		}
		l, err := NewLog(p.be, c.Dir(p.cs.ID))
		if err != nil {
			c.Inconclusive(fmt.Sprintf("%s: cannot open log: %v", p.cs.ID, err))
			return
		}
		defer l.Close()
		pos := 0
		for oi, op := range p.ops {
			var aerr error
			pan, msg := lib.Recover(func() { _, aerr = l.Apply(p.digests[pos:pos+op.N], op.Bulk) })
			if pan || aerr != nil {
				c.Violation("C01:insert-failed", fmt.Sprintf("case %s: insertion op %d failed: %v %s", p.cs.ID, oi, aerr, msg), p.cs)
				return
			}
			pos += op.N
			if p.checkAt[oi] {
				checkMembershipAll(c, &p.cs, l, l.N() <= 33)
			}
		}
		c.Case(fmt.Sprintf("%s/n%d/%s/%s/d%d", p.cs.Family, p.cs.N, p.cs.Backend, p.cs.Partition, p.cs.Dups), p.cs.N >= 2)
		c.Seen("families", p.cs.Family)
		c.Seen("log_sizes", fmt.Sprint(p.cs.N))
		if i < 4 {
			c.Sample(p.cs)
		}
	})
	if c.Counter("proofs_verified") == 0 && c.Violations() == 0 {
		c.Inconclusive("no proof was verified")
	}
}

// splitDupBulks splits bulk operations so that no bulk contains the same digest twice.
func splitDupBulks(ds [][]byte, ops []Op) []Op {
	var out []Op
	pos := 0
	for _, op := range ops {
		if !op.Bulk {
			out = append(out, op)
			pos += op.N
			continue
		}
		seen := map[string]bool{}
		start := pos
		for k := 0; k < op.N; k++ {
			d := string(ds[pos+k])
			if seen[d] {
				out = append(out, Op{pos + k - start, true})
				start = pos + k
				seen = map[string]bool{}
			}
			seen[d] = true
		}
		out = append(out, Op{pos + op.N - start, true})
		pos += op.N
	}
	return out
}

var _ = bytes.Equal
