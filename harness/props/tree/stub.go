package tree

import "qedverif/lib"

var Workers = map[string]func(args []string) int{}

func RunC01(c *lib.Ctx) { c.Inconclusive("C01: check not built yet") }
func RunC02(c *lib.Ctx) { c.Inconclusive("C02: check not built yet") }
func RunC03(c *lib.Ctx) { c.Inconclusive("C03: check not built yet") }
func RunC13(c *lib.Ctx) { c.Inconclusive("C13: check not built yet") }
