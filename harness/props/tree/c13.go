package tree

import (
	"bytes"
	"encoding/binary"
	"encoding/json"
	"fmt"
	"net"
	"reflect"

	"github.com/bbva/qed/balloon"
	"github.com/bbva/qed/balloon/history"
	"github.com/bbva/qed/consensus"
	"github.com/bbva/qed/crypto/hashing"
	"github.com/bbva/qed/gossip"
	"github.com/bbva/qed/protocol"

	"qedverif/lib"
)

func flip(b []byte) []byte {
	o := append([]byte{}, b...)
	if len(o) > 0 {
		o[len(o)/2] ^= 0x40
	}
	return o
}

func paddedVersion(v []byte) (uint64, bool) {
	if len(v) < 8 {
		return 0, false
	}
	for _, b := range v[:len(v)-8] {
		if b != 0 {
			return 0, false
		}
	}
	return binary.BigEndian.Uint64(v[len(v)-8:]), true
}

func eqHistPath(a, b history.AuditPath) bool {
	if len(a) != len(b) {
		return false
	}
	for k, v := range a {
		if w, ok := b[k]; !ok || !bytes.Equal(v, w) {
			return false
		}
	}
	return true
}

type c13case struct {
	ID     string `json:"id"`
	Kind   string `json:"kind"`
	Detail string `json:"detail"`
}

func RunC13(c *lib.Ctx) {
	c.Rule = "cases = (a) every sampled genuine membership answer (event, query version; one in six with a query version beyond the last one, which the server answers for the last version) and incremental answer (i,j) of seeded logs: encode to the public JSON form, decode, compare every field and the verification verdict on the authentic snapshot and on three perturbed ones plus a wrong digest; (b) synthetic history audit paths with indexes up to 2^63-1 and heights up to 64 through Serialize/ParseAuditPath; (c) snapshots, signed snapshots and batches with boundary contents through their JSON codecs; (d) replicated add-commands (0..10^4 digests, odd lengths) and gossip messages (all TTL signs, nil/empty/large payload, From set/unset) through their binary codecs; (e) genuine answers fetched and decoded by the real HTTP client (two construction paths) and verified by 8 goroutines at once, each on its own decoded proofs: verdicts must equal the one-at-a-time verdicts; non-trivial = object with at least one non-zero field; distinct by (kind, shape)."
	c.Assume = []string{"field equality treats nil and empty byte strings as equal, and the hyper proof value as the version it encodes (the wire form carries the version number, not the padded bytes)"}

	fail := func(cs c13case, key, what string) { c.Violation(key, cs.Kind+": "+what+" ["+cs.Detail+"]", cs) }

	// ---------- (a) genuine proofs ----------
	nlogs := c.Q(16, 120)
	r0 := c.Rand("logs")
	type plan struct {
		fam  string
		n    int
		ds   [][]byte
		ops  []Op
		seed uint64
	}
	plans := make([]plan, nlogs)
	for i := range plans {
		r := lib.NewRand(r0.Uint64())
		n := pickSize(r, c, i)
		if n > 600 {
			n = 600
		}
		plans[i] = plan{Families[i%len(Families)], n, nil, nil, r.Uint64()}
		plans[i].ds = GenDigests(r, plans[i].fam, n)
		plans[i].ops = GenPartition(r, n, r.Intn(5))
	}
	parallel(nlogs, workersN(), func(pi int) {
		p := plans[pi]
		id := fmt.Sprintf("log%d", pi)
		if c.Only != "" && c.Only != id {
			return
		}
		r := lib.NewRand(p.seed)
		l, err := NewLog(BPlus, "")
		if err != nil {
			c.Inconclusive(err.Error())
			return
		}
		defer l.Close()
		pos := 0
		for _, op := range p.ops {
			if _, err := l.Apply(p.ds[pos:pos+op.N], op.Bulk); err != nil {
				c.Inconclusive("insert failed: " + err.Error())
				return
			}
			pos += op.N
		}
		n := uint64(p.n)
		cur := n - 1
		// membership answers
		for s := 0; s < c.Q(60, 200); s++ {
			v := uint64(r.Intn(p.n))
			d := l.RH.Digests[v]
			qs := queryVersions(v, cur, false)
			q := qs[r.Intn(len(qs))]
			if s%6 == 5 {
				// a query version beyond the last one: the server answers it (for the last version)
				q = cur + uint64(r.Pick(1, 2, 7, 1000))
			}
			sq := q // the version whose snapshot the answer is checked against
			if sq > cur {
				sq = cur
			}
			cs := c13case{ID: id, Kind: "membership", Detail: fmt.Sprintf("n=%d event@%d query=%d", p.n, v, q)}
			proof, err := l.B.QueryDigestMembershipConsistency(hashing.Digest(d), q)
			if err != nil {
				continue // C01's business
			}
			wp, res, werr := wireMembership(proof)
			if werr != nil {
				fail(cs, "C13:membership:codec-error", werr.Error())
				return
			}
			if wp.Exists != proof.Exists || wp.CurrentVersion != proof.CurrentVersion || wp.QueryVersion != proof.QueryVersion ||
				wp.ActualVersion != proof.ActualVersion || !bytes.Equal(wp.KeyDigest, proof.KeyDigest) {
				fail(cs, "C13:membership:fields", fmt.Sprintf("scalar fields differ after the round trip: %+v vs %+v", res, proof))
				return
			}
			if wp.HistoryProof == nil || wp.HistoryProof.Index != proof.HistoryProof.Index || wp.HistoryProof.Version != proof.HistoryProof.Version ||
				!eqHistPath(wp.HistoryProof.AuditPath, proof.HistoryProof.AuditPath) {
				if q > cur {
					// its own signature: the answer was built for the last version but carries the asked one
					var a, b bool
					lib.Recover(func() {
						a = proof.DigestVerify(hashing.Digest(d), &balloon.Snapshot{EventDigest: d, HistoryDigest: l.Snaps[cur].HistoryDigest, HyperDigest: l.Snaps[cur].HyperDigest, Version: cur})
					})
					lib.Recover(func() {
						b = wp.DigestVerify(hashing.Digest(d), &balloon.Snapshot{EventDigest: d, HistoryDigest: l.Snaps[cur].HistoryDigest, HyperDigest: l.Snaps[cur].HyperDigest, Version: cur})
					})
					fail(cs, "C13:membership:query-version-beyond-last:history-proof", fmt.Sprintf("the answer to a query for version %d (last version %d) is built for the last version but carries the asked one: after the round trip the history proof names version %d instead of %d; against the last snapshot the original verifies=%v, the decoded answer verifies=%v", q, cur, wp.HistoryProof.Version, proof.HistoryProof.Version, a, b))
					c.Count("beyond_last_version_answers", 1)
					continue // a known class: keep sampling this log
				}
				fail(cs, "C13:membership:history-proof", "history proof (index, version or audit path) differs after the round trip")
				return
			}
			if q > cur {
				c.Count("beyond_last_version_answers", 1)
			}
			if !bytes.Equal(wp.HyperProof.Key, proof.HyperProof.Key) || !reflect.DeepEqual(map[string]hashing.Digest(wp.HyperProof.AuditPath), map[string]hashing.Digest(proof.HyperProof.AuditPath)) {
				fail(cs, "C13:membership:hyper-proof", "hyper proof (key or audit path) differs after the round trip")
				return
			}
			v1, ok1 := paddedVersion(proof.HyperProof.Value)
			v2, ok2 := paddedVersion(wp.HyperProof.Value)
			if !ok1 || !ok2 || v1 != v2 {
				fail(cs, "C13:membership:hyper-value", fmt.Sprintf("hyper proof value encodes version %d before and %d after the round trip", v1, v2))
				return
			}
			// verdict equality
			auth := &balloon.Snapshot{EventDigest: d, HistoryDigest: l.Snaps[sq].HistoryDigest, HyperDigest: l.Snaps[cur].HyperDigest, Version: sq}
			other := uint64(r.Intn(p.n))
			snaps := []*balloon.Snapshot{
				auth,
				{EventDigest: d, HistoryDigest: flip(auth.HistoryDigest), HyperDigest: auth.HyperDigest, Version: sq},
				{EventDigest: d, HistoryDigest: auth.HistoryDigest, HyperDigest: flip(auth.HyperDigest), Version: sq},
				{EventDigest: d, HistoryDigest: l.Snaps[other].HistoryDigest, HyperDigest: l.Snaps[other].HyperDigest, Version: other},
			}
			digests := [][]byte{d, l.RH.Digests[other], flip(d)}
			for si, s := range snaps {
				for di, dg := range digests {
					var a, b bool
					pa, _ := lib.Recover(func() { a = proof.DigestVerify(hashing.Digest(dg), s) })
					pb, _ := lib.Recover(func() { b = wp.DigestVerify(hashing.Digest(dg), s) })
					c.Count("verdict_pairs_compared", 1)
					if a != b || pa != pb {
						fail(cs, "C13:membership:verdict", fmt.Sprintf("verdict differs after the round trip (snapshot #%d digest #%d): original=%v decoded=%v", si, di, a, b))
						return
					}
					if si == 0 && di == 0 && !a {
						fail(cs, "C13:membership:authentic-rejected", "authentic proof rejected")
						return
					}
				}
			}
			c.Count("membership_roundtrips", 1)
		}
		// incremental answers
		for s := 0; s < c.Q(60, 200); s++ {
			i, j := uint64(r.Intn(p.n)), uint64(r.Intn(p.n))
			if i > j {
				i, j = j, i
			}
			cs := c13case{ID: id, Kind: "incremental", Detail: fmt.Sprintf("n=%d pair=(%d,%d)", p.n, i, j)}
			proof, err := l.B.QueryConsistency(i, j)
			if err != nil {
				continue
			}
			wp, werr := wireIncremental(proof)
			if werr != nil {
				fail(cs, "C13:incremental:codec-error", werr.Error())
				return
			}
			if wp.Start != proof.Start || wp.End != proof.End || !eqHistPath(wp.AuditPath, proof.AuditPath) {
				fail(cs, "C13:incremental:fields", "Start, End or audit path differ after the round trip")
				return
			}
			hi, hj := l.Snaps[i].HistoryDigest, l.Snaps[j].HistoryDigest
			o := l.Snaps[r.Intn(p.n)].HistoryDigest
			for k, pr := range [][2][]byte{{hi, hj}, {flip(hi), hj}, {hi, flip(hj)}, {o, hj}, {hi, o}} {
				a, pa := verifyInc(proof, pr[0], pr[1])
				b, pb := verifyInc(wp, pr[0], pr[1])
				c.Count("verdict_pairs_compared", 1)
				if a != b || pa != pb {
					fail(cs, "C13:incremental:verdict", fmt.Sprintf("verdict differs after the round trip (digest pair #%d): %v vs %v", k, a, b))
					return
				}
			}
			c.Count("incremental_roundtrips", 1)
		}
		c.Case(fmt.Sprintf("proofs/%s/n%d/%s", p.fam, p.n, PartSig(p.ops)), p.n >= 2)
	})

	// ---------- (b) synthetic audit paths ----------
	{
		r := c.Rand("paths")
		for k := 0; k < c.Q(300, 5000); k++ {
			ap := history.AuditPath{}
			ne := r.Range(0, 70)
			for e := 0; e < ne; e++ {
				var idx uint64
				switch r.Intn(5) {
				case 0:
					idx = uint64(r.Intn(1000))
				case 1:
					idx = (uint64(1) << uint(r.Range(1, 62))) + uint64(r.Range(-1, 1))
				case 2:
					idx = (uint64(1) << 63) - 1 - uint64(r.Intn(3))
				default:
					idx = r.Uint64() >> 1
				}
				h := uint16(r.Range(0, 64))
				var key [10]byte
				binary.BigEndian.PutUint64(key[:8], idx)
				binary.BigEndian.PutUint16(key[8:], h)
				ap[key] = r.Bytes(r.Pick(0, 1, 32, 32, 32, 33, 64))
			}
			cs := c13case{ID: fmt.Sprintf("path%d", k), Kind: "history-audit-path", Detail: fmt.Sprintf("%d entries", ne)}
			ser := ap.Serialize()
			buf, err := json.Marshal(ser)
			if err != nil {
				fail(cs, "C13:path:marshal", err.Error())
				continue
			}
			var back map[string]hashing.Digest
			if err := json.Unmarshal(buf, &back); err != nil {
				fail(cs, "C13:path:unmarshal", err.Error())
				continue
			}
			var parsed history.AuditPath
			if pan, msg := lib.Recover(func() { parsed = history.ParseAuditPath(back) }); pan {
				fail(cs, "C13:path:parse-panic", msg)
				continue
			}
			if !eqHistPath(ap, parsed) {
				fail(cs, "C13:path:differs", "audit path differs after Serialize -> JSON -> ParseAuditPath")
			}
			c.Count("audit_path_roundtrips", 1)
			c.Case(fmt.Sprintf("path/e%d", ne/10), ne > 0)
		}
	}

	// ---------- (c) snapshots / signed snapshots / batches ----------
	{
		r := c.Rand("snaps")
		mkSnap := func() *protocol.Snapshot {
			vs := []uint64{0, 1, 255, 256, 1 << 32, 1<<63 - 1, 1 << 63, ^uint64(0), r.Uint64()}
			return &protocol.Snapshot{EventDigest: r.Bytes(r.Pick(0, 1, 32, 32, 33)), HistoryDigest: r.Bytes(r.Pick(0, 32, 32, 64)), HyperDigest: r.Bytes(r.Pick(0, 32, 32)), Version: vs[r.Intn(len(vs))]}
		}
		eqSnap := func(a, b *protocol.Snapshot) bool {
			if a == nil || b == nil {
				return a == b
			}
			return a.Version == b.Version && bytes.Equal(a.EventDigest, b.EventDigest) && bytes.Equal(a.HistoryDigest, b.HistoryDigest) && bytes.Equal(a.HyperDigest, b.HyperDigest)
		}
		for k := 0; k < c.Q(400, 8000); k++ {
			cs := c13case{ID: fmt.Sprintf("snap%d", k), Kind: "snapshot-batch"}
			s := mkSnap()
			buf, _ := s.Encode()
			var s2 protocol.Snapshot
			if err := s2.Decode(buf); err != nil || !eqSnap(s, &s2) {
				fail(cs, "C13:snapshot", fmt.Sprintf("snapshot differs after Encode/Decode: %+v vs %+v (%v)", s, s2, err))
			}
			nb := r.Pick(0, 1, 2, 7, 50)
			batch := &protocol.BatchSnapshots{}
			for x := 0; x < nb; x++ {
				batch.Snapshots = append(batch.Snapshots, &protocol.SignedSnapshot{Snapshot: mkSnap(), Signature: r.Bytes(r.Pick(0, 64, 64, 65))})
			}
			bb, err := batch.Encode()
			var b2 protocol.BatchSnapshots
			if err == nil {
				err = b2.Decode(bb)
			}
			if err != nil || len(b2.Snapshots) != len(batch.Snapshots) {
				fail(cs, "C13:batch", fmt.Sprintf("batch of %d differs after Encode/Decode (%v)", nb, err))
			} else {
				for x := range batch.Snapshots {
					if !eqSnap(batch.Snapshots[x].Snapshot, b2.Snapshots[x].Snapshot) || !bytes.Equal(batch.Snapshots[x].Signature, b2.Snapshots[x].Signature) {
						fail(cs, "C13:batch-entry", fmt.Sprintf("signed snapshot #%d differs after Encode/Decode", x))
						break
					}
				}
			}
			c.Count("snapshot_batch_roundtrips", 1)
			c.Case(fmt.Sprintf("batch/n%d", nb), true)
		}
	}

	// ---------- (d) binary codecs ----------
	{
		r := c.Rand("binary")
		for k := 0; k < c.Q(150, 2000); k++ {
			nd := r.Pick(0, 1, 2, 3, 10, 100, 1000)
			if k%50 == 49 {
				nd = 10000
			}
			ds := make([]hashing.Digest, nd)
			for i := range ds {
				ds[i] = r.Bytes(r.Pick(32, 32, 32, 0, 1, 31, 33))
			}
			cs := c13case{ID: fmt.Sprintf("cmd%d", k), Kind: "add-command", Detail: fmt.Sprintf("%d digests", nd)}
			buf, err := consensus.VerifEncodeAdd(ds)
			if err != nil {
				fail(cs, "C13:command:encode", err.Error())
				continue
			}
			var back []hashing.Digest
			pan, msg := lib.Recover(func() { back, err = consensus.VerifDecodeAdd(buf) })
			if pan || err != nil || len(back) != len(ds) {
				fail(cs, "C13:command:decode", fmt.Sprintf("decode failed or length differs: %v %s (%d vs %d)", err, msg, len(back), len(ds)))
				continue
			}
			for i := range ds {
				if !bytes.Equal(ds[i], back[i]) {
					fail(cs, "C13:command:digest", fmt.Sprintf("digest #%d differs after the command round trip", i))
					break
				}
			}
			c.Count("command_roundtrips", 1)
			c.Case(fmt.Sprintf("cmd/n%d", nd), nd > 0)
		}
		// several commands in flight: encoding the next one must not disturb the previous ones
		for k := 0; k < c.Q(60, 600); k++ {
			nc := r.Range(2, 6)
			var encs [][]byte
			var copies [][]byte
			var lists [][]hashing.Digest
			for x := 0; x < nc; x++ {
				ds := make([]hashing.Digest, r.Pick(1, 1, 2, 5))
				for i := range ds {
					ds[i] = r.Bytes(32)
				}
				buf, err := consensus.VerifEncodeAdd(ds)
				if err != nil {
					continue
				}
				encs, copies, lists = append(encs, buf), append(copies, append([]byte{}, buf...)), append(lists, ds)
			}
			for x := range encs {
				cs := c13case{ID: fmt.Sprintf("inflight%d", k), Kind: "add-commands-in-flight", Detail: fmt.Sprintf("%d commands encoded before any is decoded", nc)}
				back, err := consensus.VerifDecodeAdd(encs[x])
				same := err == nil && len(back) == len(lists[x]) && bytes.Equal(encs[x], copies[x])
				for i := 0; same && i < len(back); i++ {
					same = bytes.Equal(back[i], lists[x][i])
				}
				if !same {
					fail(cs, "C13:command:changed-while-in-flight", fmt.Sprintf("command #%d of %d no longer decodes to its digests after later commands were encoded (%v)", x, nc, err))
					break
				}
			}
			c.Count("in_flight_command_groups", 1)
			c.Case(fmt.Sprintf("cmd-inflight/%d", nc), true)
		}
		for k := 0; k < c.Q(300, 5000); k++ {
			m := &gossip.Message{Kind: gossip.BatchMessageType, TTL: r.Pick(-1000000, -1, 0, 1, 2, 5, 1<<31-1, -(1 << 31)), Payload: nil}
			switch r.Intn(4) {
			case 1:
				m.Payload = []byte{}
			case 2:
				m.Payload = r.Bytes(r.Range(1, 300))
			case 3:
				m.Payload = r.Bytes(r.Range(1000, 100000))
			}
			if r.Bool() {
				m.From = &gossip.Peer{Name: fmt.Sprintf("n%d", r.Intn(100)), Addr: net.IPv4(127, 0, 0, byte(r.Intn(255))), Port: uint16(r.Intn(65536)), Meta: gossip.Meta{Role: []string{"auditor", "monitor", "publisher", "server", ""}[r.Intn(5)]}, Status: gossip.Status(r.Intn(5))}
			}
			cs := c13case{ID: fmt.Sprintf("msg%d", k), Kind: "gossip-message", Detail: fmt.Sprintf("ttl=%d payload=%d from=%v", m.TTL, len(m.Payload), m.From != nil)}
			buf, err := m.Encode()
			var m2 gossip.Message
			if err == nil {
				err = m2.Decode(buf)
			}
			if err != nil {
				fail(cs, "C13:message:codec", err.Error())
				continue
			}
			okFrom := (m.From == nil) == (m2.From == nil)
			if okFrom && m.From != nil {
				okFrom = m.From.Name == m2.From.Name && m.From.Addr.Equal(m2.From.Addr) && m.From.Port == m2.From.Port && m.From.Meta.Role == m2.From.Meta.Role && m.From.Status == m2.From.Status
			}
			if m.Kind != m2.Kind || m.TTL != m2.TTL || !bytes.Equal(m.Payload, m2.Payload) || !okFrom {
				fail(cs, "C13:message:fields", fmt.Sprintf("message differs after Encode/Decode: ttl %d vs %d, payload %d vs %d bytes, from ok=%v", m.TTL, m2.TTL, len(m.Payload), len(m2.Payload), okFrom))
			}
			c.Count("message_roundtrips", 1)
			c.Case(fmt.Sprintf("msg/ttl%d/p%d/f%v", sign(m.TTL), sizeClass(len(m.Payload)), m.From != nil), true)
		}
	}
	c13ConcurrentClient(c)
	c.Sample(c13case{ID: "log0", Kind: "membership", Detail: "every sampled (event, query version) of each seeded log: fields + verdicts on 4 snapshots x 3 digests"})
	c.Sample(c13case{ID: "msg0", Kind: "gossip-message", Detail: "ttl=-1 payload=0 from=false"})
}

func sign(x int) int {
	if x < 0 {
		return -1
	}
	if x > 0 {
		return 1
	}
	return 0
}
func sizeClass(n int) int {
	switch {
	case n == 0:
		return 0
	case n < 1000:
		return 1
	}
	return 2
}
