package tree

import (
	"bytes"
	"fmt"
	"sync"

	"github.com/bbva/qed/balloon/cache"
	"github.com/bbva/qed/balloon/history"
	"github.com/bbva/qed/balloon/hyper"
	"github.com/bbva/qed/crypto/hashing"
	"github.com/bbva/qed/storage/bplus"

	"qedverif/lib"
	"qedverif/ref"
)

var boundarySizes = []int{1, 2, 3, 4, 5, 7, 8, 9, 15, 16, 17, 31, 32, 33, 63, 64, 65, 100, 127, 128, 129, 200, 255, 256, 257, 300, 400}
var bigSizes = []int{511, 512, 513, 700, 1023, 1024, 1025, 2047, 2048, 2049, 3000, 4095, 4096, 4097, 5000}

func pickSize(r *lib.Rand, c *lib.Ctx, i int) int {
	if c.Thorough() && i%4 == 3 {
		return bigSizes[r.Intn(len(bigSizes))]
	}
	return boundarySizes[r.Intn(len(boundarySizes))]
}

// parallel runs f(i) for i in [0,n) on up to w workers.
func parallel(n, w int, f func(i int)) {
	var wg sync.WaitGroup
	ch := make(chan int)
	for k := 0; k < w; k++ {
		wg.Add(1)
		go func() {
			defer wg.Done()
			for i := range ch {
				f(i)
			}
		}()
	}
	for i := 0; i < n; i++ {
		ch <- i
	}
	close(ch)
	wg.Wait()
}

type c04case struct {
	ID      string   `json:"id"`
	Family  string   `json:"family"`
	N       int      `json:"n"`
	Backend string   `json:"backend"`
	PartA   string   `json:"partition_a"`
	PartB   string   `json:"partition_b"`
	Restart []int    `json:"restart_after_ops"`
	Digests []string `json:"digests,omitempty"`
}

// runPartition drives one log with one partition and compares every snapshot with the reference.
// Returns the history digests per version and hyper digests per op boundary (keyed by last version).
func runPartition(c *lib.Ctx, cs *c04case, be Backend, dir string, digests [][]byte, ops []Op, restart map[int]bool, tag string) (hist [][]byte, hyperAt map[uint64][]byte, ok bool) {
	hyperAt = map[uint64][]byte{}
	l, err := NewLog(be, dir)
	if err != nil {
		c.Inconclusive(fmt.Sprintf("%s: cannot open log: %v", cs.ID, err))
		return nil, nil, false
	}
	defer l.Close()
	fail := func(key, what string) {
		c.Violation(key, fmt.Sprintf("case %s (%s): %s", cs.ID, tag, what), cs)
	}
	pos := 0
	for oi, op := range ops {
		ds := digests[pos : pos+op.N]
		var snapsErr error
		var panicMsg string
		var first uint64 = l.N()
		p, msg := lib.Recover(func() {
			_, snapsErr = l.Apply(ds, op.Bulk)
		})
		if p {
			panicMsg = msg
			fail("C04:insert-panic", fmt.Sprintf("insertion of op %d (n=%d bulk=%v) at version %d panicked: %s", oi, op.N, op.Bulk, first, panicMsg))
			return nil, nil, false
		}
		if snapsErr != nil {
			fail("C04:insert-error", fmt.Sprintf("insertion of op %d failed: %v", oi, snapsErr))
			return nil, nil, false
		}
		end := l.N() - 1
		wantHyper := l.RY.Root()
		for k := 0; k < op.N; k++ {
			v := first + uint64(k)
			s := l.Snaps[v]
			if s.Version != v {
				fail("C04:version", fmt.Sprintf("snapshot %d of op %d carries version %d, expected %d", k, oi, s.Version, v))
			}
			if !bytes.Equal(s.EventDigest, ds[k]) {
				fail("C04:event-digest", fmt.Sprintf("snapshot of version %d carries another event digest", v))
			}
			if !bytes.Equal(s.HistoryDigest, l.RH.Root(v)) {
				fail("C04:history-digest", fmt.Sprintf("history digest of version %d (n=%d, op %d bulk=%v size %d) differs from the reference tree", v, len(digests), oi, op.Bulk, op.N))
			}
			if !bytes.Equal(s.HyperDigest, wantHyper) {
				fail("C04:hyper-digest", fmt.Sprintf("hyper digest issued with version %d (op %d ending at %d, bulk=%v size %d, family %s) differs from the reference sparse tree", v, oi, end, op.Bulk, op.N, cs.Family))
			}
			hist = append(hist, s.HistoryDigest)
			c.Count("snapshots_compared", 1)
		}
		hyperAt[end] = l.Snaps[end].HyperDigest
		pos += op.N
		if restart[oi] {
			if p, msg := lib.Recover(func() { err = l.Reopen() }); p || err != nil {
				fail("C04:reopen", fmt.Sprintf("reopen after op %d failed: %v %s", oi, err, msg))
				return nil, nil, false
			}
			c.Count("restarts", 1)
			if be == Rocks {
				eq, err := l.B.VerifHyperCacheEqual()
				if err != nil || !eq {
					fail("C04:cache-after-reopen", fmt.Sprintf("hyper cache after reopen differs from a fresh rebuild (%v)", err))
				}
				c.Count("cache_invariant_checks", 1)
			}
		}
	}
	if be == Rocks {
		eq, err := l.B.VerifHyperCacheEqual()
		if err != nil || !eq {
			fail("C04:cache-invariant", fmt.Sprintf("in-memory hyper cache differs from a fresh rebuild from the store (%v)", err))
		}
		c.Count("cache_invariant_checks", 1)
	}
	return hist, hyperAt, c.Violations() == 0
}

func RunC04(c *lib.Ctx) {
	c.Rule = "case = (digest family, log size, back-end, two partitions into Add/AddBulk, restart points); every snapshot of both runs is compared with the reference trees and the two runs with each other; non-trivial = log of >= 2 events; distinct by (family, n, backend, partition shapes, #restarts). Sub-checks: history tree alone across write-cache capacities, hyper tree alone across cache implementations, reference self-check (memoised vs from-scratch)."
	c.Assume = []string{"reference trees (harness/ref) implement the published construction with QED's byte layouts; validated by from-scratch/incremental agreement and by agreement with the unchanged implementation", "SHA-256 only", "RocksDB 7.8.3 via shim"}

	// (0) reference self-check: persistent/memoised vs defining recursion
	{
		r := c.Rand("selfcheck")
		for i := 0; i < c.Q(20, 100); i++ {
			n := r.Range(1, 80)
			ds := GenDigests(r, Families[i%len(Families)], n)
			h1, h2 := ref.NewHist(), ref.NewHist()
			h2.NoMemo = true
			y := ref.NewHyper()
			m := map[string]uint64{}
			for v, d := range ds {
				h1.Append(d)
				h2.Append(d)
				y.Insert(d, uint64(v))
				m[string(d)] = uint64(v)
				if !bytes.Equal(h1.Root(uint64(v)), h2.Root(uint64(v))) {
					c.Violation("C04:ref-selfcheck-hist", "reference history tree: memoised and from-scratch roots differ", nil)
				}
				if v%7 == 0 || v == n-1 {
					if !bytes.Equal(y.Root(), ref.HyperRootScratch(m)) {
						c.Violation("C04:ref-selfcheck-hyper", "reference sparse tree: persistent and from-scratch roots differ", nil)
					}
				}
			}
			c.Count("reference_selfchecks", 1)
		}
	}

	ncases := c.Q(90, 900)
	r0 := c.Rand("cases")
	type plan struct {
		cs      c04case
		digests [][]byte
		opsA    []Op
		opsB    []Op
		restart map[int]bool
		be      Backend
	}
	plans := make([]plan, ncases)
	for i := range plans {
		r := lib.NewRand(r0.Uint64())
		fam := Families[i%len(Families)]
		n := pickSize(r, c, i)
		be := Rocks
		if i%3 == 2 {
			be = BPlus
		}
		ds := GenDigests(r, fam, n)
		sa, sb := r.Intn(5), r.Intn(5)
		if sa == sb {
			sb = (sb + 1) % 5
		}
		opsA, opsB := GenPartition(r, n, sa), GenPartition(r, n, sb)
		restart := map[int]bool{}
		var rl []int
		if be == Rocks {
			for k := 0; k < r.Intn(3); k++ {
				x := r.Intn(len(opsA))
				if !restart[x] {
					restart[x] = true
					rl = append(rl, x)
				}
			}
		}
		cs := c04case{ID: fmt.Sprintf("c%d", i), Family: fam, N: n, Backend: string(be), PartA: PartSig(opsA), PartB: PartSig(opsB), Restart: rl}
		if n <= 12 {
			for _, d := range ds {
				cs.Digests = append(cs.Digests, lib.HexFull(d))
			}
		}
		plans[i] = plan{cs, ds, opsA, opsB, restart, be}
	}
	parallel(ncases, workersN(), func(i int) {
		p := plans[i]
		if c.Only != "" && c.Only != p.cs.ID {
			return
		}
		dirA, dirB := c.Dir(p.cs.ID+"a"), c.Dir(p.cs.ID+"b")
		histA, hyA, okA := runPartition(c, &p.cs, p.be, dirA, p.digests, p.opsA, p.restart, "partition A")
		histB, hyB, okB := runPartition(c, &p.cs, p.be, dirB, p.digests, p.opsB, nil, "partition B")
		if okA && okB {
			for v := range histA {
				if !bytes.Equal(histA[v], histB[v]) {
					c.Violation("C04:grouping-history", fmt.Sprintf("case %s: history digest of version %d depends on the grouping", p.cs.ID, v), p.cs)
					break
				}
			}
			common := 0
			for v, h := range hyA {
				if h2, ok := hyB[v]; ok {
					common++
					if !bytes.Equal(h, h2) {
						c.Violation("C04:grouping-hyper", fmt.Sprintf("case %s: hyper digest at version %d depends on the grouping", p.cs.ID, v), p.cs)
						break
					}
				}
			}
			c.Count("common_op_boundaries_compared", int64(common))
		}
		c.Case(fmt.Sprintf("%s/n%d/%s/%s/%s/r%d", p.cs.Family, p.cs.N, p.cs.Backend, p.cs.PartA, p.cs.PartB, len(p.cs.Restart)), p.cs.N >= 2)
		c.Seen("families", p.cs.Family)
		c.Seen("log_sizes", fmt.Sprint(p.cs.N))
		if i < 4 {
			c.Sample(p.cs)
		}
	})

	// (2) history tree alone across write-cache capacities (single adds persisted one by one; bulks at 300)
	{
		r := c.Rand("histcache")
		for _, cap := range []uint16{0, 1, 2, 7, 300} {
			for rep := 0; rep < c.Q(2, 10); rep++ {
				n := r.Pick(33, 64, 129, 300, 700)
				ds := GenDigests(r, FamRandom, n)
				st := bplus.NewBPlusTreeStore()
				t := history.NewHistoryTree(HasherF, st, cap)
				rh := ref.NewHist()
				bulks := cap == 300 && rep%2 == 1
				v := 0
				for v < n {
					k := 1
					if bulks {
						k = r.Range(1, 400)
						if v+k > n {
							k = n - v
						}
					}
					var roots []hashing.Digest
					pan, msg := lib.Recover(func() {
						if k == 1 && !bulks {
							rh1, muts, _ := t.Add(ds[v], uint64(v))
							st.Mutate(muts, nil)
							roots = []hashing.Digest{rh1}
						} else {
							hd := make([]hashing.Digest, k)
							for i := range hd {
								hd[i] = ds[v+i]
							}
							rs, muts, _ := t.AddBulk(hd, uint64(v))
							st.Mutate(muts, nil)
							roots = rs
						}
					})
					if pan {
						c.Violation("C04:history-cache-panic", fmt.Sprintf("history tree with write-cache capacity %d panicked at version %d: %s", cap, v, msg), nil)
						break
					}
					for i := 0; i < k; i++ {
						rh.Append(ds[v+i])
						if !bytes.Equal(roots[i], rh.Root(uint64(v+i))) {
							c.Violation("C04:history-cache-capacity", fmt.Sprintf("history digest of version %d differs from the reference with write-cache capacity %d", v+i, cap), nil)
						}
					}
					v += k
				}
				c.Case(fmt.Sprintf("histcache/cap%d/n%d/bulks%v", cap, n, bulks), true)
				c.Count("history_cache_runs", 1)
			}
		}
	}
	// (3) hyper tree alone: BatchCache vs SimpleCache
	{
		r := c.Rand("hypercache")
		for rep := 0; rep < c.Q(6, 40); rep++ {
			n := r.Pick(10, 50, 200, 500)
			ds := GenDigests(r, Families[rep%len(Families)], n)
			var caches = []func() cache.ModifiableCache{
				func() cache.ModifiableCache { return hyper.NewBatchCache(hyper.DefaultBatchLevels) },
				func() cache.ModifiableCache { return cache.NewSimpleCache(1) },
			}
			for ci, mk := range caches {
				st := bplus.NewBPlusTreeStore()
				t := hyper.NewHyperTree(HasherF, st, mk())
				ry := ref.NewHyper()
				for v, d := range ds {
					rh, muts, err := t.Add(d, uint64(v))
					if err != nil {
						c.Violation("C04:hyper-alone-error", err.Error(), nil)
						break
					}
					st.Mutate(muts, nil)
					if !bytes.Equal(rh, ry.Insert(d, uint64(v))) {
						c.Violation("C04:hyper-cache-impl", fmt.Sprintf("hyper digest after insertion %d differs from the reference with cache implementation #%d", v, ci), nil)
						break
					}
				}
				c.Case(fmt.Sprintf("hypercache/impl%d/n%d/%s", ci, n, Families[rep%len(Families)]), true)
				c.Count("hyper_cache_runs", 1)
			}
		}
	}
}
