package clientp

// C20, layer 2: black-box request-trace monitor.
//
// A real client.HTTPClient talks to scripted httptest servers. Every server records each request
// it receives (and every refused connection) in one scenario-wide log. The monitor knows the
// topology the client must believe because only these servers ever tell it one: the initial URLs,
// 200 answers to GET /info/shards, and 301 answers carrying a protocol.Shards body.
//
// Decided from the log only (no model of the client's dead marks):
//   * a write (POST /events, /events/bulk) reaches only the believed primary;
//   * no request reaches a node outside the believed topology (snapshot store excepted);
//   * a read under preference Primary reaches only the believed primary, under Secondary never it;
//   * after a scripted leader change on a clean history the second write at the latest reaches
//     the new leader (one redirect / discovery round);
//   * every client call issues at most N requests, N = (maxRetries+1) x (nodes+1) x 10 + 20.

import (
	"encoding/json"
	"fmt"
	"net"
	"net/http"
	"net/http/httptest"
	"strings"
	"sync"
	"time"

	"github.com/bbva/qed/client"
	"github.com/bbva/qed/crypto/hashing"
	"github.com/bbva/qed/protocol"

	"qedverif/lib"
)

// ---------- scenario description (JSON-marshalable: goes into replay files) ----------

type bbStep struct {
	Op    string `json:"op"`             // call | set | view
	Call  string `json:"call,omitempty"` // Add AddBulk Membership MembershipDigest Incremental Ping Snapshot
	Node  int    `json:"node"`
	Field string `json:"field,omitempty"` // api | shards | down
	Val   string `json:"val,omitempty"`
	// view change
	Leader  int    `json:"leader"`
	Members []int  `json:"members,omitempty"`
	Mark    string `json:"mark,omitempty"` // W1 / W2: the two writes after a scripted leader change
}

type bbScenario struct {
	ID         string `json:"id"`
	Shape      string `json:"shape"`
	Nodes      int    `json:"nodes"`
	ClientKind string `json:"client_kind"` // default-http-client | options-custom-http-client | from-config
	Pref       int    `json:"read_pref"`
	MaxRetries int    `json:"max_retries"`
	Discovery  bool   `json:"discovery"`
	Health     bool   `json:"health_checks"`
	Revive     bool   `json:"attempt_to_revive"`
	InitPri    int    `json:"initial_primary"`
	InitSecs   []int  `json:"initial_secondaries"`
	Leader     int    `json:"leader"`
	Members    []int  `json:"members"`
	LocPath    bool   `json:"redirect_location_with_path"`
	// initial per-node behaviour
	API    []string `json:"api"`    // ok | 4xx | 5xx | reset
	Shards []string `json:"shards"` // ok | 4xx | 5xx | reset | garbage
	Down   []bool   `json:"down"`
	Steps  []bbStep `json:"steps"`
	// convergence clause (only in clean leader-change shapes)
	ConvMode   string `json:"converge_mode,omitempty"` // redirect | down | sick
	ConvLeader int    `json:"converge_new_leader"`
	// filled in on a violation
	Log []string `json:"request_log,omitempty"`
}

func (s *bbScenario) customHTTP() bool { return s.ClientKind != "default-http-client" }

// ---------- scripted servers ----------

type bbView struct {
	Leader  int
	Members []int
}

type bbEntry struct {
	Call    int
	Node    int // -1 = snapshot store
	Method  string
	Path    string
	Outcome string  // 200 | shards200 | 301 | 400 | 404 | 405 | 503 | reset | refused | garbage | unblock200
	View    *bbView // for shards200 / 301 / unblock answers to /info/shards
	Follow  bool    // request carries a Referer: it is the follow-up of a redirect
}

func (e bbEntry) String() string {
	n := fmt.Sprintf("n%d", e.Node)
	if e.Node < 0 {
		n = "store"
	}
	s := fmt.Sprintf("call#%d %s %s -> %s: %s", e.Call, e.Method, e.Path, n, e.Outcome)
	if e.View != nil {
		s += fmt.Sprintf(" {leader n%d members %v}", e.View.Leader, e.View.Members)
	}
	if e.Follow {
		s += " (redirect follow-up)"
	}
	return s
}

type bbNode struct {
	idx      int
	srv      *httptest.Server
	url      string
	hostport string
	api      string
	shards   string
	down     bool
}

type bbRun struct {
	sc    *bbScenario
	mu    sync.Mutex
	nodes []*bbNode
	store *httptest.Server
	view  bbView
	log   []bbEntry
	// per call
	callNo   int
	callReqs int
	capN     int
	unblock  bool // request cap exceeded in this call: answer everything successfully so the call ends
}

type flakyListener struct {
	net.Listener
	run  *bbRun
	node *bbNode
}

func (l *flakyListener) Accept() (net.Conn, error) {
	for {
		conn, err := l.Listener.Accept()
		if err != nil {
			return nil, err
		}
		l.run.mu.Lock()
		down := l.node.down && !l.run.unblock
		if down {
			l.run.record(bbEntry{Node: l.node.idx, Method: "CONN", Path: "-", Outcome: "refused"})
		}
		l.run.mu.Unlock()
		if !down {
			return conn, nil
		}
		if tc, ok := conn.(*net.TCPConn); ok {
			tc.SetLinger(0)
		}
		conn.Close()
	}
}

// record appends to the log (caller holds mu) and maintains the per-call request counter.
func (r *bbRun) record(e bbEntry) {
	e.Call = r.callNo
	r.log = append(r.log, e)
	r.callReqs++
	if r.callReqs > r.capN {
		r.unblock = true
	}
}

func digest(b byte) hashing.Digest {
	d := make([]byte, 32)
	for i := range d {
		d[i] = b
	}
	return d
}

func (r *bbRun) shardsBody(n *bbNode, v bbView) []byte {
	sh := protocol.Shards{NodeId: fmt.Sprintf("n%d", n.idx), LeaderId: fmt.Sprintf("n%d", v.Leader), URIScheme: protocol.Http, Shards: map[string]protocol.ShardDetail{}}
	for _, m := range v.Members {
		id := fmt.Sprintf("n%d", m)
		sh.Shards[id] = protocol.ShardDetail{NodeId: id, HTTPAddr: r.nodes[m].hostport}
	}
	b, _ := json.Marshal(sh)
	return b
}

func okBody(path string) []byte {
	snap := &protocol.Snapshot{EventDigest: digest(1), HistoryDigest: digest(2), HyperDigest: digest(3), Version: 0}
	var v interface{}
	switch {
	case path == "/events":
		v = snap
	case path == "/events/bulk":
		v = []*protocol.Snapshot{snap}
	case strings.HasPrefix(path, "/proofs/incremental"):
		v = &protocol.IncrementalResponse{Start: 0, End: 1, AuditPath: map[string]hashing.Digest{}}
	case strings.HasPrefix(path, "/proofs/"):
		v = &protocol.MembershipResult{Exists: true, Hyper: map[string]hashing.Digest{}, History: map[string]hashing.Digest{}, KeyDigest: digest(4), Key: []byte("k")}
	case strings.HasPrefix(path, "/snapshot"):
		v = &protocol.SignedSnapshot{Snapshot: snap, Signature: []byte("sig")}
	default:
		return []byte("{}")
	}
	b, _ := json.Marshal(v)
	return b
}

func hijackClose(w http.ResponseWriter) {
	if hj, ok := w.(http.Hijacker); ok {
		if conn, _, err := hj.Hijack(); err == nil {
			if tc, ok := conn.(*net.TCPConn); ok {
				tc.SetLinger(0)
			}
			conn.Close()
			return
		}
	}
	panic(http.ErrAbortHandler)
}

func (r *bbRun) handler(n *bbNode) http.HandlerFunc {
	return func(w http.ResponseWriter, req *http.Request) {
		path := req.URL.Path
		e := bbEntry{Node: n.idx, Method: req.Method, Path: path, Follow: req.Header.Get("Referer") != ""}
		write := func(code int, body []byte) {
			w.Header().Set("Content-Type", "application/json")
			w.WriteHeader(code)
			if req.Method != "HEAD" {
				w.Write(body)
			}
		}
		r.mu.Lock()
		api, shards, down, view := n.api, n.shards, n.down, r.view
		var act func()
		switch {
		case r.unblock:
			// the call has exceeded its request budget (the monitor will flag it): answer
			// everything successfully so that the call can end and nothing leaks
			e.Outcome = "unblock200"
			if path == "/info/shards" {
				v := view
				e.View = &v
				body := r.shardsBody(n, view)
				act = func() { write(200, body) }
			} else {
				act = func() { write(200, okBody(path)) }
			}
		case down:
			e.Outcome = "reset"
			act = func() { hijackClose(w) }
		case path == "/healthcheck":
			switch api {
			case "5xx":
				e.Outcome = "503"
				act = func() { write(503, nil) }
			case "reset":
				e.Outcome = "reset"
				act = func() { hijackClose(w) }
			default:
				e.Outcome = "200"
				act = func() { write(200, nil) }
			}
		case path == "/info/shards":
			switch {
			case req.Method != "GET":
				e.Outcome = "405"
				act = func() { write(405, []byte("method not allowed")) }
			case shards == "4xx":
				e.Outcome = "404"
				act = func() { write(404, []byte("not found")) }
			case shards == "5xx":
				e.Outcome = "503"
				act = func() { write(503, []byte("Leader not found!")) }
			case shards == "reset":
				e.Outcome = "reset"
				act = func() { hijackClose(w) }
			case shards == "garbage":
				e.Outcome = "garbage"
				act = func() { write(200, []byte("<html>not json</html>")) }
			default:
				e.Outcome = "shards200"
				v := view
				e.View = &v
				body := r.shardsBody(n, view)
				act = func() { write(200, body) }
			}
		case api == "5xx":
			e.Outcome = "503"
			act = func() { write(503, []byte("unavailable")) }
		case api == "reset":
			e.Outcome = "reset"
			act = func() { hijackClose(w) }
		case api == "4xx":
			e.Outcome = "400"
			act = func() { write(400, []byte("bad request")) }
		case path == "/events" || path == "/events/bulk":
			switch {
			case req.Method != "POST":
				e.Outcome = "405"
				act = func() { write(405, []byte("method not allowed")) }
			case view.Leader != n.idx:
				// as /repo/api/apihttp intends: shards body + redirect to the leader
				e.Outcome = "301"
				v := view
				e.View = &v
				body := r.shardsBody(n, view)
				loc := r.nodes[view.Leader].url
				if r.sc.LocPath {
					loc += path
				}
				act = func() {
					w.Header().Set("Location", loc)
					write(301, body)
				}
			default:
				e.Outcome = "200"
				act = func() { write(200, okBody(path)) }
			}
		case strings.HasPrefix(path, "/proofs/"):
			if req.Method != "POST" {
				e.Outcome = "405"
				act = func() { write(405, []byte("method not allowed")) }
			} else {
				e.Outcome = "200"
				act = func() { write(200, okBody(path)) }
			}
		default:
			e.Outcome = "404"
			act = func() { write(404, []byte("not found")) }
		}
		r.record(e)
		r.mu.Unlock()
		act()
	}
}

func (r *bbRun) storeHandler() http.HandlerFunc {
	return func(w http.ResponseWriter, req *http.Request) {
		r.mu.Lock()
		r.record(bbEntry{Node: -1, Method: req.Method, Path: req.URL.Path, Outcome: "200"})
		r.mu.Unlock()
		w.Header().Set("Content-Type", "application/json")
		w.Write(okBody("/snapshot"))
	}
}

func startBB(sc *bbScenario) *bbRun {
	r := &bbRun{sc: sc, view: bbView{Leader: sc.Leader, Members: append([]int{}, sc.Members...)}}
	r.capN = (sc.MaxRetries+1)*(sc.Nodes+1)*10 + 20
	for i := 0; i < sc.Nodes; i++ {
		n := &bbNode{idx: i, api: sc.API[i], shards: sc.Shards[i], down: sc.Down[i]}
		n.srv = httptest.NewUnstartedServer(r.handler(n))
		n.srv.Listener = &flakyListener{Listener: n.srv.Listener, run: r, node: n}
		n.srv.Start()
		n.url = n.srv.URL
		n.hostport = strings.TrimPrefix(n.url, "http://")
		r.nodes = append(r.nodes, n)
	}
	r.store = httptest.NewServer(r.storeHandler())
	return r
}

func (r *bbRun) stop() {
	done := make(chan struct{})
	go func() {
		for _, n := range r.nodes {
			n.srv.CloseClientConnections()
			n.srv.Close()
		}
		r.store.Close()
		close(done)
	}()
	select {
	case <-done:
	case <-time.After(20 * time.Second):
	}
}

// beginCall opens a new call window and returns its number.
func (r *bbRun) beginCall() int {
	r.mu.Lock()
	defer r.mu.Unlock()
	r.callNo++
	r.callReqs = 0
	r.unblock = false
	return r.callNo
}

// ---------- the monitor ----------

type belief struct {
	primary int // -1 = none
	all     map[int]bool
}

func beliefFrom(p int, secs []int) *belief {
	b := &belief{primary: p, all: map[int]bool{}}
	if p >= 0 {
		b.all[p] = true
	}
	for _, s := range secs {
		b.all[s] = true
	}
	return b
}

func beliefFromView(v *bbView) *belief {
	b := &belief{primary: -1, all: map[int]bool{}}
	for _, m := range v.Members {
		b.all[m] = true
		if m == v.Leader {
			b.primary = m
		}
	}
	return b
}

func (b *belief) String() string {
	var ms []string
	for i := 0; i < 16; i++ {
		if b.all[i] {
			ms = append(ms, fmt.Sprintf("n%d", i))
		}
	}
	return fmt.Sprintf("{primary n%d, endpoints %v}", b.primary, ms)
}

type bbMonitor struct {
	c        *lib.Ctx
	sc       *bbScenario
	run      *bbRun
	agg      *wbAgg
	cur      *belief
	alt      *belief // belief before the last 301 (to classify a client that ignored the redirect)
	pos      int     // log entries processed
	violated bool
	callKind map[int]string
}

func isWrite(e bbEntry) bool {
	return e.Method == "POST" && (e.Path == "/events" || e.Path == "/events/bulk")
}
func isRead(e bbEntry) bool { return e.Method == "POST" && strings.HasPrefix(e.Path, "/proofs/") }

func (m *bbMonitor) clientClass() string {
	if m.sc.customHTTP() {
		return "custom-http-client"
	}
	return "default-http-client"
}

func (m *bbMonitor) fail(key, what string) {
	if m.violated {
		return
	}
	m.violated = true
	cp := *m.sc
	m.run.mu.Lock()
	for _, e := range m.run.log {
		cp.Log = append(cp.Log, e.String())
	}
	m.run.mu.Unlock()
	if len(cp.Log) > 400 {
		cp.Log = append(cp.Log[:200], append([]string{"..."}, cp.Log[len(cp.Log)-100:]...)...)
	}
	m.c.Violation(key, fmt.Sprintf("black-box scenario %s (%s, %s): %s", m.sc.ID, m.sc.Shape, m.sc.ClientKind, what), cp)
}

// admissible says whether entry e is consistent with belief b; why explains a refusal.
func (m *bbMonitor) admissible(e bbEntry, b *belief) (ok bool, kind, why string) {
	if e.Node < 0 {
		if strings.HasPrefix(e.Path, "/snapshot") {
			return true, "", ""
		}
		return false, "non-snapshot-request-to-snapshot-store", fmt.Sprintf("%s reached the snapshot store", e)
	}
	if e.Follow {
		// the target of a followed redirect is dictated by the Location header a believed
		// node sent; not judged
		return true, "", ""
	}
	if !b.all[e.Node] {
		return false, "request-outside-believed-topology", fmt.Sprintf("%s reached n%d, which is outside the believed topology %s", e, e.Node, b)
	}
	if isWrite(e) && e.Node != b.primary {
		return false, "write-to-non-leader", fmt.Sprintf("write %s reached n%d but the believed leader is n%d (%s)", e, e.Node, b.primary, b)
	}
	if isRead(e) {
		switch client.ReadPref(m.sc.Pref) {
		case client.Primary:
			if e.Node != b.primary {
				return false, "read-excluded-by-preference:Primary", fmt.Sprintf("read %s under preference Primary reached n%d, believed primary is n%d", e, e.Node, b.primary)
			}
		case client.Secondary:
			if e.Node == b.primary {
				return false, "read-excluded-by-preference:Secondary", fmt.Sprintf("read %s under preference Secondary reached the believed primary n%d", e, e.Node)
			}
		}
	}
	return true, "", ""
}

// process consumes new log entries in arrival order.
func (m *bbMonitor) process() {
	m.run.mu.Lock()
	entries := append([]bbEntry{}, m.run.log[m.pos:]...)
	m.pos = len(m.run.log)
	m.run.mu.Unlock()
	for _, e := range entries {
		m.agg.count("bb_requests_recorded", 1)
		m.agg.count("bb_req_"+e.Method+" "+pathClass(e.Path)+" -> "+e.Outcome, 1)
		if m.violated {
			continue
		}
		ok, kind, why := m.admissible(e, m.cur)
		if !ok && m.alt != nil {
			if ok2, _, _ := m.admissible(e, m.alt); ok2 {
				// consistent with the belief held before the redirect, not with the one the
				// redirect announced: the client did not take the redirect's topology over
				m.fail("C20:converge:redirect:"+m.clientClass(), fmt.Sprintf("after a 301 answer carrying the new topology %s the client still acts on the old one %s: %s", m.cur, m.alt, why))
				continue
			}
		}
		if !ok {
			m.fail("C20:blackbox:"+kind, why)
			continue
		}
		if isWrite(e) {
			m.agg.count("bb_writes_checked", 1)
		} else if isRead(e) {
			m.agg.count("bb_reads_checked", 1)
		}
		switch e.Outcome {
		case "shards200", "unblock200":
			if e.View != nil && e.Method == "GET" {
				m.cur, m.alt = beliefFromView(e.View), nil
				m.agg.count("bb_belief_updates_discovery", 1)
			}
		case "301":
			old := m.cur
			m.cur, m.alt = beliefFromView(e.View), old
			m.agg.count("bb_belief_updates_redirect", 1)
		}
	}
}

func pathClass(p string) string {
	switch {
	case strings.HasPrefix(p, "/proofs/"):
		return "/proofs/*"
	case strings.HasPrefix(p, "/snapshot"):
		return "/snapshot"
	}
	return p
}

// judgeCall applies the termination clause to call `no` (n requests were issued inside it).
func (m *bbMonitor) judgeCall(no int, kind string, finished bool) {
	m.run.mu.Lock()
	n, capN := 0, m.run.capN
	shards4xx := 0
	for _, e := range m.run.log {
		if e.Call == no {
			n++
			if e.Path == "/info/shards" && e.Method == "GET" && (e.Outcome == "404" || e.Outcome == "400") {
				shards4xx++
			}
		}
	}
	// configured number of attempts: consecutive identical POSTs to one node inside one call are
	// the attempts of a single request (the client never re-selects an endpoint it has just
	// failed on without another request in between), so their number is at most maxRetries+1
	runLen, maxRun := 0, 0
	var runEntry, worst bbEntry
	for _, e := range m.run.log {
		if e.Call != no {
			continue
		}
		if e.Method == "POST" && !e.Follow && runLen > 0 && e.Node == runEntry.Node && e.Path == runEntry.Path {
			runLen++
		} else if e.Method == "POST" && !e.Follow {
			runLen, runEntry = 1, e
		} else {
			runLen = 0
		}
		if runLen > maxRun {
			maxRun, worst = runLen, e
		}
	}
	m.run.mu.Unlock()
	m.agg.count("bb_calls_judged", 1)
	if maxRun >= 1 {
		m.agg.count("bb_attempt_runs_checked", 1)
		if maxRun == m.sc.MaxRetries+1 && maxRun > 1 {
			m.agg.count("bb_attempt_runs_at_the_configured_limit", 1)
		}
	}
	if maxRun > m.sc.MaxRetries+1 && n <= capN {
		m.fail(fmt.Sprintf("C20:blackbox:%s:more-attempts-than-configured", kind), fmt.Sprintf("call #%d (%s) sent %d consecutive %s %s to n%d; maxRetries=%d allows %d attempts", no, kind, maxRun, worst.Method, worst.Path, worst.Node, m.sc.MaxRetries, m.sc.MaxRetries+1))
		return
	}
	if n > capN {
		key := fmt.Sprintf("C20:blackbox:%s:request-budget-exceeded", kind)
		if shards4xx*10 >= n*8 {
			key = "C20:discover:info-shards-4xx:unbounded-retry-loop"
		}
		m.fail(key, fmt.Sprintf("call #%d (%s) issued %d requests (budget (maxRetries+1) x (nodes+1) x 10 + 20 = %d with maxRetries=%d, nodes=%d) of which %d were GET /info/shards answered 4xx; it %s", no, kind, n, capN, m.sc.MaxRetries, m.sc.Nodes, shards4xx, map[bool]string{true: "ended only after the servers started answering successfully", false: "never ended"}[finished]))
		return
	}
	if !finished {
		m.c.Inconclusive(fmt.Sprintf("black-box scenario %s: call #%d (%s) still running after the watchdog with only %d requests", m.sc.ID, no, kind, n))
	}
}

// ---------- running one scenario ----------

const bbWatchdog = 150 * time.Second

// guarded runs f in a goroutine under the watchdog; returns whether it finished and a panic message.
func guarded(f func()) (finished bool, panicMsg string) {
	done := make(chan string, 1)
	go func() {
		_, msg := lib.Recover(f)
		done <- msg
	}()
	select {
	case msg := <-done:
		return true, msg
	case <-time.After(bbWatchdog):
		return false, ""
	}
}

func (r *bbRun) urlsOf(idx []int) []string {
	var out []string
	for _, i := range idx {
		out = append(out, r.nodes[i].url)
	}
	return out
}

func newBBClient(sc *bbScenario, r *bbRun, hcInterval time.Duration) (*client.HTTPClient, error) {
	secs := r.urlsOf(sc.InitSecs)
	switch sc.ClientKind {
	case "from-config":
		conf := client.DefaultConfig()
		conf.Endpoints = append([]string{r.nodes[sc.InitPri].url}, secs...)
		conf.SnapshotStoreURL = r.store.URL
		conf.Timeout = 60 * time.Second
		conf.ReadPreference = client.ReadPref(sc.Pref)
		conf.MaxRetries = sc.MaxRetries
		conf.EnableTopologyDiscovery = sc.Discovery
		conf.EnableHealthChecks = sc.Health
		conf.HealthCheckTimeout = 5 * time.Second
		conf.HealthCheckInterval = hcInterval
		conf.AttemptToReviveEndpoints = sc.Revive
		return client.NewHTTPClientFromConfig(conf)
	default:
		opts := []client.HTTPClientOptionF{
			client.SetURLs(r.nodes[sc.InitPri].url, secs...),
			client.SetSnapshotStoreURL(r.store.URL),
			client.SetAPIKey(sc.ID),
			client.SetReadPreference(client.ReadPref(sc.Pref)),
			client.SetMaxRetries(sc.MaxRetries),
			client.SetTopologyDiscovery(sc.Discovery),
			client.SetHealthChecks(sc.Health),
			client.SetHealthCheckTimeout(5 * time.Second),
			client.SetHealthCheckInterval(hcInterval),
			client.SetAttemptToReviveEndpoints(sc.Revive),
			client.SetHasherFunction(hashing.NewSha256Hasher),
		}
		if sc.ClientKind == "options-custom-http-client" {
			opts = append(opts, client.SetHttpClient(&http.Client{Timeout: 60 * time.Second, Transport: &http.Transport{MaxIdleConnsPerHost: 4}}))
		}
		return client.NewHTTPClient(opts...)
	}
}

func doCall(cl *client.HTTPClient, call string) error {
	var err error
	switch call {
	case "Add":
		_, err = cl.Add("event")
	case "AddBulk":
		_, err = cl.AddBulk([]string{"e1", "e2"})
	case "Membership":
		_, err = cl.Membership([]byte("k"), nil)
	case "MembershipDigest":
		v := uint64(0)
		_, err = cl.MembershipDigest(digest(4), &v)
	case "Incremental":
		_, err = cl.Incremental(0, 1)
	case "Ping":
		err = cl.Ping()
	case "Snapshot":
		_, err = cl.GetSnapshot(0)
	}
	return err
}

func (r *bbRun) apply(st bbStep) {
	r.mu.Lock()
	switch st.Op {
	case "set":
		n := r.nodes[st.Node]
		switch st.Field {
		case "api":
			n.api = st.Val
		case "shards":
			n.shards = st.Val
		case "down":
			n.down = st.Val == "true"
		}
	case "view":
		r.view = bbView{Leader: st.Leader, Members: append([]int{}, st.Members...)}
	}
	r.mu.Unlock()
	if st.Op == "set" && st.Field == "down" {
		// idle keep-alive connections must not survive an outage
		r.nodes[st.Node].srv.CloseClientConnections()
	}
}

func runBBScenario(c *lib.Ctx, sc *bbScenario, agg *wbAgg) {
	r := startBB(sc)
	defer r.stop()
	m := &bbMonitor{c: c, sc: sc, run: r, agg: agg, cur: beliefFrom(sc.InitPri, sc.InitSecs)}

	var cl *client.HTTPClient
	var cerr error
	no := r.beginCall()
	fin, pmsg := guarded(func() { cl, cerr = newBBClient(sc, r, time.Hour) })
	m.process()
	m.judgeCall(no, "NewHTTPClient", fin)
	if pmsg != "" {
		agg.count("bb_client_panics", 1)
		c.Inconclusive(fmt.Sprintf("black-box scenario %s: constructor panicked: %s", sc.ID, pmsg))
		return
	}
	if !fin {
		return
	}
	if cerr != nil || cl == nil {
		c.Inconclusive(fmt.Sprintf("black-box scenario %s: constructor failed: %v", sc.ID, cerr))
		return
	}
	defer func() { lib.Recover(cl.Close) }()

	w1 := -1
	for _, st := range sc.Steps {
		if m.violated {
			break
		}
		if st.Op != "call" {
			r.apply(st)
			agg.count("bb_faults_or_view_changes", 1)
			continue
		}
		no := r.beginCall()
		if st.Mark == "W1" {
			w1 = no
		}
		var err error
		fin, pmsg := guarded(func() { err = doCall(cl, st.Call) })
		m.process()
		m.judgeCall(no, st.Call, fin)
		agg.count("bb_calls", 1)
		if pmsg != "" {
			agg.count("bb_client_panics", 1)
			agg.see("bb_client_panic_messages", st.Call+": "+firstLine(pmsg))
		}
		if !fin {
			return
		}
		if err != nil {
			agg.count("bb_calls_failed", 1)
			// information only (not a clause of C20): a call that failed without sending anything
			// although every node of the scenario was up and answering normally at that moment --
			// the usual cause is callAny marking endpoints dead on 4xx answers
			r.mu.Lock()
			sent, allUp := 0, true
			for _, e := range r.log {
				if e.Call == no {
					sent++
				}
			}
			for _, n := range r.nodes {
				if n.down || n.api != "ok" || n.shards != "ok" {
					allUp = false
				}
			}
			r.mu.Unlock()
			if sent == 0 && allUp {
				agg.count("bb_info_calls_failed_without_any_request_while_all_nodes_healthy", 1)
				agg.see("bb_info_failed_without_request", st.Call+": "+firstLine(err.Error()))
			}
		} else {
			agg.count("bb_calls_succeeded", 1)
		}
		if st.Mark == "W2" && !m.violated {
			// convergence clause
			reached := false
			r.mu.Lock()
			for _, e := range r.log {
				if e.Call >= w1 && isWrite(e) && e.Node == sc.ConvLeader && e.Outcome == "200" {
					reached = true
				}
			}
			r.mu.Unlock()
			agg.count("bb_convergence_checked", 1)
			agg.see("bb_convergence_modes", sc.ConvMode+"/"+m.clientClass()+fmt.Sprintf("/discovery=%v/health=%v", sc.Discovery, sc.Health))
			if reached {
				agg.count("bb_convergence_held", 1)
			} else {
				m.fail("C20:converge:"+sc.ConvMode+":"+m.clientClass(), fmt.Sprintf("leader changed to n%d (old leader: %s); neither of the next two writes reached the new leader", sc.ConvLeader, sc.ConvMode))
			}
		}
	}
}

func firstLine(s string) string {
	if i := strings.IndexByte(s, '\n'); i >= 0 {
		s = s[:i]
	}
	if len(s) > 120 {
		s = s[:120]
	}
	return s
}

// ---------- scenario generation ----------

var bbShapes = []string{
	"steady", "wrong-initial-primary", "leader-change-redirect", "leader-fail-down", "leader-fail-sick",
	"faults", "shards-4xx-at-start", "shards-4xx-after-leader-death", "shards-4xx-after-read-failures",
	"shards-mixed", "member-removed", "retries", "read-4xx-then-write",
}

var readCalls = []string{"Membership", "MembershipDigest", "Incremental"}
var writeCalls = []string{"Add", "AddBulk"}

func rangeInts(n int) []int {
	out := make([]int, n)
	for i := range out {
		out[i] = i
	}
	return out
}

func without(xs []int, x int) []int {
	var out []int
	for _, y := range xs {
		if y != x {
			out = append(out, y)
		}
	}
	return out
}

func genBBScenario(r *lib.Rand, id string, shape string) *bbScenario {
	sc := &bbScenario{ID: id, Shape: shape}
	sc.Nodes = r.Range(2, 4)
	sc.ClientKind = []string{"default-http-client", "options-custom-http-client", "from-config"}[r.Intn(3)]
	sc.Pref = r.Intn(5)
	sc.Discovery = r.Bool()
	sc.Health = r.Intn(3) == 0
	sc.Revive = r.Intn(3) == 0
	sc.LocPath = r.Bool()
	sc.Members = rangeInts(sc.Nodes)
	sc.Leader = r.Intn(sc.Nodes)
	sc.InitPri = sc.Leader
	sc.InitSecs = without(sc.Members, sc.Leader)
	for i := 0; i < sc.Nodes; i++ {
		sc.API = append(sc.API, "ok")
		sc.Shards = append(sc.Shards, "ok")
		sc.Down = append(sc.Down, false)
	}
	call := func(k string) bbStep { return bbStep{Op: "call", Call: k} }
	anyCall := func() bbStep {
		switch x := r.Intn(10); {
		case x < 4:
			return call(writeCalls[r.Intn(2)])
		case x < 8:
			return call(readCalls[r.Intn(3)])
		case x < 9:
			return call("Ping")
		default:
			return call("Snapshot")
		}
	}
	steady := func(n int) {
		for i := 0; i < n; i++ {
			sc.Steps = append(sc.Steps, anyCall())
		}
	}
	otherThan := func(x int) int {
		o := without(sc.Members, x)
		return o[r.Intn(len(o))]
	}
	switch shape {
	case "steady":
		steady(r.Range(4, 10))
	case "wrong-initial-primary":
		// the client is configured with a follower as primary
		sc.InitPri = otherThan(sc.Leader)
		sc.InitSecs = without(sc.Members, sc.InitPri)
		if r.Bool() && len(sc.InitSecs) > 1 {
			sc.InitSecs = sc.InitSecs[:len(sc.InitSecs)-1]
		}
		sc.ConvMode, sc.ConvLeader = "redirect", sc.Leader
		if sc.Discovery {
			// the constructor's discovery already fixes the belief; still checked the same way
			sc.ConvMode = "redirect"
		}
		sc.Steps = append(sc.Steps, bbStep{Op: "call", Call: writeCalls[r.Intn(2)], Mark: "W1"}, bbStep{Op: "call", Call: writeCalls[r.Intn(2)], Mark: "W2"})
		steady(r.Range(2, 5))
	case "leader-change-redirect", "leader-fail-down", "leader-fail-sick":
		steady(r.Range(1, 4))
		old := sc.Leader
		nl := otherThan(old)
		members := sc.Members
		switch shape {
		case "leader-change-redirect":
			sc.ConvMode = "redirect"
			if r.Intn(3) == 0 && sc.Nodes >= 3 {
				// the old leader also leaves the cluster view of the others? no: keep it a member
				// (it must stay reachable for the redirect); shuffle order only
				members = append([]int{}, sc.Members...)
			}
		case "leader-fail-down":
			sc.ConvMode = "down"
			sc.Discovery = true
			sc.Steps = append(sc.Steps, bbStep{Op: "set", Node: old, Field: "down", Val: "true"})
			if r.Bool() {
				members = without(sc.Members, old)
			}
		case "leader-fail-sick":
			sc.ConvMode = "sick"
			sc.Discovery = true
			sc.Steps = append(sc.Steps, bbStep{Op: "set", Node: old, Field: "api", Val: "5xx"}, bbStep{Op: "set", Node: old, Field: "shards", Val: "5xx"})
			if r.Bool() {
				members = without(sc.Members, old)
			}
		}
		sc.ConvLeader = nl
		sc.Steps = append(sc.Steps, bbStep{Op: "view", Leader: nl, Members: members})
		sc.Steps = append(sc.Steps, bbStep{Op: "call", Call: writeCalls[r.Intn(2)], Mark: "W1"}, bbStep{Op: "call", Call: writeCalls[r.Intn(2)], Mark: "W2"})
		// afterwards: only writes and pings (reads could legitimately meet dead marks)
		for i := 0; i < r.Range(1, 3); i++ {
			sc.Steps = append(sc.Steps, call(writeCalls[r.Intn(2)]))
		}
		if shape == "leader-change-redirect" {
			steady(r.Range(1, 3))
		}
	case "faults":
		// arbitrary faults; safety and termination clauses only
		for i := 0; i < r.Range(6, 12); i++ {
			if r.Intn(3) == 0 {
				n := r.Intn(sc.Nodes)
				switch r.Intn(4) {
				case 0:
					sc.Steps = append(sc.Steps, bbStep{Op: "set", Node: n, Field: "api", Val: []string{"ok", "4xx", "5xx", "reset"}[r.Intn(4)]})
				case 1:
					sc.Steps = append(sc.Steps, bbStep{Op: "set", Node: n, Field: "shards", Val: []string{"ok", "5xx", "reset", "garbage"}[r.Intn(4)]})
				case 2:
					sc.Steps = append(sc.Steps, bbStep{Op: "set", Node: n, Field: "down", Val: fmt.Sprint(r.Bool())})
				case 3:
					sc.Steps = append(sc.Steps, bbStep{Op: "view", Leader: r.Intn(sc.Nodes), Members: sc.Members})
				}
			} else {
				sc.Steps = append(sc.Steps, anyCall())
			}
		}
	case "shards-4xx-at-start":
		sc.Discovery = true
		for i := range sc.Shards {
			sc.Shards[i] = "4xx"
		}
		steady(r.Range(1, 3))
	case "shards-4xx-after-leader-death":
		sc.Discovery = true
		sc.Health = false
		steady(r.Range(1, 3))
		for i := 0; i < sc.Nodes; i++ {
			sc.Steps = append(sc.Steps, bbStep{Op: "set", Node: i, Field: "shards", Val: "4xx"})
		}
		sc.Steps = append(sc.Steps, bbStep{Op: "set", Node: sc.Leader, Field: "down", Val: "true"})
		sc.Steps = append(sc.Steps, call("Add"), call("Add"), call("AddBulk"))
	case "shards-4xx-after-read-failures":
		sc.Discovery = true
		steady(r.Range(1, 3))
		for i := 0; i < sc.Nodes; i++ {
			sc.Steps = append(sc.Steps, bbStep{Op: "set", Node: i, Field: "shards", Val: "4xx"}, bbStep{Op: "set", Node: i, Field: "api", Val: "4xx"})
		}
		sc.Steps = append(sc.Steps, call(readCalls[r.Intn(3)]), call(readCalls[r.Intn(3)]))
	case "shards-mixed":
		// some nodes fail discovery requests, at least one answers
		sc.Discovery = true
		good := r.Intn(sc.Nodes)
		for i := range sc.Shards {
			if i != good {
				sc.Shards[i] = []string{"ok", "5xx", "reset", "garbage", "4xx"}[r.Intn(5)]
			}
		}
		steady(r.Range(1, 3))
		sc.Steps = append(sc.Steps, bbStep{Op: "set", Node: sc.Leader, Field: "down", Val: "true"})
		nl := otherThan(sc.Leader)
		sc.Steps = append(sc.Steps, bbStep{Op: "view", Leader: nl, Members: sc.Members})
		steady(r.Range(3, 6))
	case "member-removed":
		// discovery announces a smaller cluster: the removed node must not be contacted again
		sc.Nodes = r.Range(3, 4)
		sc.Members = rangeInts(sc.Nodes)
		sc.API, sc.Shards, sc.Down = nil, nil, nil
		for i := 0; i < sc.Nodes; i++ {
			sc.API = append(sc.API, "ok")
			sc.Shards = append(sc.Shards, "ok")
			sc.Down = append(sc.Down, false)
		}
		sc.Leader = r.Intn(sc.Nodes)
		sc.InitPri, sc.InitSecs = sc.Leader, without(sc.Members, sc.Leader)
		sc.Discovery = true
		removed := otherThan(sc.Leader)
		sc.Members = without(sc.Members, removed) // the servers' view from the start
		steady(r.Range(4, 9))
	case "read-4xx-then-write":
		// every node rejects one read with a 4xx (e.g. a malformed query), then all is well again;
		// safety and termination clauses only (what the client's dead marks do to the following
		// calls is recorded as information)
		steady(r.Range(1, 2))
		for i := 0; i < sc.Nodes; i++ {
			sc.Steps = append(sc.Steps, bbStep{Op: "set", Node: i, Field: "api", Val: "4xx"})
		}
		sc.Steps = append(sc.Steps, call(readCalls[r.Intn(3)]))
		for i := 0; i < sc.Nodes; i++ {
			sc.Steps = append(sc.Steps, bbStep{Op: "set", Node: i, Field: "api", Val: "ok"})
		}
		sc.Steps = append(sc.Steps, call(writeCalls[r.Intn(2)]), call(readCalls[r.Intn(3)]), call(writeCalls[r.Intn(2)]))
	case "retries":
		sc.MaxRetries = 1
		// the retrier sleeps 1 s per retry: mostly clients that can run in parallel
		if !sc.customHTTP() && r.Intn(4) != 0 {
			sc.ClientKind = []string{"options-custom-http-client", "from-config"}[r.Intn(2)]
		}
		sc.Nodes = 2
		sc.Members = []int{0, 1}
		sc.API, sc.Shards, sc.Down = []string{"ok", "ok"}, []string{"ok", "ok"}, []bool{false, false}
		sc.Leader = r.Intn(2)
		sc.InitPri, sc.InitSecs = sc.Leader, []int{1 - sc.Leader}
		sc.Health = false
		steady(1)
		sc.Steps = append(sc.Steps, bbStep{Op: "set", Node: r.Intn(2), Field: "api", Val: []string{"5xx", "reset"}[r.Intn(2)]})
		sc.Steps = append(sc.Steps, anyCall(), anyCall())
	}
	return sc
}

func bbSig(sc *bbScenario) string {
	calls := map[string]bool{}
	sets := 0
	for _, st := range sc.Steps {
		if st.Op == "call" {
			calls[st.Call] = true
		} else {
			sets++
		}
	}
	return fmt.Sprintf("bb/%s/%s/nodes=%d/pref=%s/disc=%v/hc=%v/revive=%v/retries=%d/calls=%d/changes=%d", sc.Shape, sc.ClientKind, sc.Nodes, prefNames[client.ReadPref(sc.Pref)], sc.Discovery, sc.Health, sc.Revive, sc.MaxRetries, len(calls), sets)
}

func runBlackBox(c *lib.Ctx) {
	n := c.Q(260, 5200)
	r0 := c.Rand("blackbox")
	scs := make([]*bbScenario, n)
	for i := range scs {
		r := lib.NewRand(r0.Uint64())
		scs[i] = genBBScenario(r, fmt.Sprintf("bb-%d", i), bbShapes[i%len(bbShapes)])
	}
	runOne := func(sc *bbScenario, agg *wbAgg) {
		if c.Only != "" && c.Only != sc.ID {
			return
		}
		runBBScenario(c, sc, agg)
		c.Case(bbSig(sc), len(sc.Steps) >= 2)
		agg.count("bb_scenarios", 1)
		agg.count("bb_scenarios_"+sc.Shape, 1)
		agg.see("bb_shapes", sc.Shape+"/"+sc.ClientKind)
		agg.see("bb_config", fmt.Sprintf("pref=%s/disc=%v/hc=%v/revive=%v/retries=%d", prefNames[client.ReadPref(sc.Pref)], sc.Discovery, sc.Health, sc.Revive, sc.MaxRetries))
	}
	// Phase 1: clients on http.DefaultClient. NewHTTPClient installs its redirect hook on that
	// process-global object, so these scenarios need it exclusively: strictly sequential, and
	// no other client is constructed meanwhile.
	agg := newWbAgg()
	for _, sc := range scs {
		if !sc.customHTTP() {
			runOne(sc, agg)
		}
	}
	agg.flush(c)
	// Phase 2: clients with their own http.Client do not depend on the global: run in parallel.
	var rest []*bbScenario
	for _, sc := range scs {
		if sc.customHTTP() {
			rest = append(rest, sc)
		}
	}
	workers := 8
	var wg sync.WaitGroup
	aggs := make([]*wbAgg, workers)
	for w := 0; w < workers; w++ {
		aggs[w] = newWbAgg()
		wg.Add(1)
		go func(w int) {
			defer wg.Done()
			for i := w; i < len(rest); i += workers {
				runOne(rest[i], aggs[w])
			}
		}(w)
	}
	wg.Wait()
	for _, a := range aggs {
		a.flush(c)
	}
	for i := 0; i < 3 && i < len(scs); i++ {
		c.Sample(scs[i*5%len(scs)])
	}
}
