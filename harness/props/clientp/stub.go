package clientp

import "qedverif/lib"

// Workers are child-process entry points (qv worker <name> args...).
var Workers = map[string]func(args []string) int{}

func RunC20(c *lib.Ctx) { c.Inconclusive("C20: check not built yet") }
