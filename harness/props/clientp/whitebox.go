package clientp

// C20, layer 1: white-box state-machine monitor on the real client topology object.
//
// Random event sequences (Update / mark-dead / mark-alive / NextReadEndpoint(pref) / windows of
// NextReadEndpoint / Primary) are applied to client.VerifNewTopology(...) and, in lock-step, to a
// small declarative model written from the property text (not from the implementation):
//
//   believed topology = (primary url, secondary urls) of the LAST Update
//   permitted(pref)   = Primary            -> {primary} if alive
//                       PrimaryPreferred   -> {primary} if alive, else live secondaries
//                       Secondary          -> live secondaries
//                       SecondaryPreferred -> live secondaries, else {primary} if alive
//                       Any                -> every live endpoint
//
// "marked dead" is what the monitor itself did through MarkDead/MarkAlive, plus the two reset
// rules the client documents: an Update makes the (new) primary alive and keeps the mark of a url
// that stays in the topology as a secondary; a failing NextReadEndpoint with attemptToRevive
// marks everything alive again.

import (
	"fmt"
	"sort"
	"strings"
	"sync"

	"github.com/bbva/qed/client"

	"qedverif/lib"
)

var prefNames = map[client.ReadPref]string{
	client.Primary: "Primary", client.PrimaryPreferred: "PrimaryPreferred", client.Secondary: "Secondary",
	client.SecondaryPreferred: "SecondaryPreferred", client.Any: "Any",
}
var allPrefs = []client.ReadPref{client.Primary, client.PrimaryPreferred, client.Secondary, client.SecondaryPreferred, client.Any}

type wbEvent struct {
	Kind    string   `json:"k"` // update | dead | alive | next | window | primary
	Primary string   `json:"p,omitempty"`
	Secs    []string `json:"s,omitempty"`
	URL     string   `json:"u,omitempty"`
	Pref    int      `json:"pref,omitempty"`
}

type wbCase struct {
	ID     string    `json:"id"`
	Revive bool      `json:"attempt_to_revive"`
	URLs   int       `json:"urls"`
	Events []wbEvent `json:"events"`
	// filled in on a violation
	FailedAt int      `json:"failed_at_event,omitempty"`
	Trace    []string `json:"trace,omitempty"`
}

// ---------- model ----------

type wbModel struct {
	primary string
	secs    []string
	dead    map[string]bool
	// classification only (never used for a verdict): secondaries that were the primary when
	// they were (re)listed as secondary and have stayed in the topology since
	exPrimary map[string]bool
	revive    bool
}

func newWbModel(revive bool) *wbModel {
	return &wbModel{dead: map[string]bool{}, exPrimary: map[string]bool{}, revive: revive}
}

func (m *wbModel) inTopology(u string) bool {
	if u == "" {
		return false
	}
	if u == m.primary {
		return true
	}
	for _, s := range m.secs {
		if s == u {
			return true
		}
	}
	return false
}

func (m *wbModel) update(p string, secs []string) {
	nd := map[string]bool{}
	ne := map[string]bool{}
	nd[p] = false
	for _, s := range secs {
		if m.inTopology(s) {
			nd[s] = m.dead[s]
			ne[s] = s == m.primary || m.exPrimary[s]
		} else {
			nd[s] = false
		}
	}
	m.primary, m.secs, m.dead, m.exPrimary = p, append([]string{}, secs...), nd, ne
}

func (m *wbModel) liveSecs() []string {
	var out []string
	for _, s := range m.secs {
		if !m.dead[s] {
			out = append(out, s)
		}
	}
	return out
}

func (m *wbModel) primaryAlive() bool { return m.primary != "" && !m.dead[m.primary] }

// permitted returns the endpoints the property allows for pref in the current state and whether
// the choice among them is a round-robin choice (more than one equally entitled candidate).
func (m *wbModel) permitted(pref client.ReadPref) []string {
	ls := m.liveSecs()
	switch pref {
	case client.Primary:
		if m.primaryAlive() {
			return []string{m.primary}
		}
		return nil
	case client.PrimaryPreferred:
		if m.primaryAlive() {
			return []string{m.primary}
		}
		return ls
	case client.Secondary:
		return ls
	case client.SecondaryPreferred:
		if len(ls) > 0 {
			return ls
		}
		if m.primaryAlive() {
			return []string{m.primary}
		}
		return nil
	case client.Any:
		var out []string
		if m.primaryAlive() {
			out = append(out, m.primary)
		}
		return append(out, ls...)
	}
	return nil
}

func (m *wbModel) stateSig(pref client.ReadPref) string {
	p := "none"
	if m.primary != "" {
		p = "alive"
		if m.dead[m.primary] {
			p = "dead"
		}
	}
	ls := len(m.liveSecs())
	ds := len(m.secs) - ls
	b := func(n int) string {
		if n >= 2 {
			return "2+"
		}
		return fmt.Sprint(n)
	}
	ex := 0
	for _, s := range m.secs {
		if m.exPrimary[s] && !m.dead[s] {
			ex++
		}
	}
	return fmt.Sprintf("%s/P=%s/liveSec=%s/deadSec=%s/liveExPrimarySec=%d", prefNames[pref], p, b(ls), b(ds), ex)
}

func (m *wbModel) String() string {
	var sb strings.Builder
	fmt.Fprintf(&sb, "primary=%s", m.primary)
	if m.primary != "" && m.dead[m.primary] {
		sb.WriteString("(dead)")
	}
	sb.WriteString(" secondaries=[")
	for i, s := range m.secs {
		if i > 0 {
			sb.WriteString(" ")
		}
		sb.WriteString(s)
		if m.dead[s] {
			sb.WriteString("(dead)")
		}
		if m.exPrimary[s] {
			sb.WriteString("(ex-primary)")
		}
	}
	sb.WriteString("]")
	return sb.String()
}

// ---------- generation ----------

func wbURL(i int) string { return fmt.Sprintf("http://n%d", i) }

func genWbCase(r *lib.Rand, id string, nEvents int) *wbCase {
	cs := &wbCase{ID: id, Revive: r.Intn(3) == 0, URLs: r.Range(2, 5)}
	// the generator tracks the last Update only to bias choices towards role swaps
	curP, curS := "", []string{}
	pickURL := func() string { return wbURL(r.Intn(cs.URLs)) }
	mkUpdate := func() wbEvent {
		var p string
		switch x := r.Intn(10); {
		case curP != "" && x < 4:
			p = curP
		case len(curS) > 0 && x < 8:
			p = curS[r.Intn(len(curS))]
		default:
			p = pickURL()
		}
		var secs []string
		relistOld := curP != "" && curP != p && r.Intn(3) != 0
		for _, i := range r.Perm(cs.URLs) {
			u := wbURL(i)
			if u == p {
				continue
			}
			if (u == curP && relistOld) || (u != curP && r.Intn(5) < 3) {
				secs = append(secs, u)
			}
		}
		curP, curS = p, secs
		return wbEvent{Kind: "update", Primary: p, Secs: secs}
	}
	for len(cs.Events) < nEvents {
		if len(cs.Events) == 0 && r.Intn(8) != 0 {
			cs.Events = append(cs.Events, mkUpdate())
			continue
		}
		switch x := r.Intn(100); {
		case x < 14:
			cs.Events = append(cs.Events, mkUpdate())
		case x < 34:
			cs.Events = append(cs.Events, wbEvent{Kind: "dead", URL: pickURL()})
		case x < 44:
			cs.Events = append(cs.Events, wbEvent{Kind: "alive", URL: pickURL()})
		case x < 78:
			cs.Events = append(cs.Events, wbEvent{Kind: "next", Pref: r.Intn(5)})
		case x < 94:
			cs.Events = append(cs.Events, wbEvent{Kind: "window", Pref: r.Intn(5)})
		default:
			cs.Events = append(cs.Events, wbEvent{Kind: "primary"})
		}
	}
	return cs
}

// ---------- per-worker evidence accumulator ----------

type wbAgg struct {
	counts map[string]int64
	seen   map[string]map[string]bool
}

func newWbAgg() *wbAgg { return &wbAgg{counts: map[string]int64{}, seen: map[string]map[string]bool{}} }
func (a *wbAgg) count(k string, n int64) {
	a.counts[k] += n
}
func (a *wbAgg) see(set, member string) {
	m := a.seen[set]
	if m == nil {
		m = map[string]bool{}
		a.seen[set] = m
	}
	m[member] = true
}
func (a *wbAgg) flush(c *lib.Ctx) {
	for k, n := range a.counts {
		c.Count(k, n)
	}
	for s, m := range a.seen {
		for k := range m {
			c.Seen(s, k)
		}
	}
}

// ---------- execution + monitor ----------

const (
	keyExPrimaryStarved = "C20:topology.Update:ex-primary-relisted-as-secondary:never-selected"
)

// allExPrimary reports whether every url of xs is an ex-primary secondary in the model.
func (m *wbModel) allExPrimary(xs []string) bool {
	if len(xs) == 0 {
		return false
	}
	for _, x := range xs {
		if !m.exPrimary[x] {
			return false
		}
	}
	return true
}

func contains(xs []string, x string) bool {
	for _, y := range xs {
		if y == x {
			return true
		}
	}
	return false
}

type wbResult struct {
	sig        string
	nontrivial bool
}

func runWbCase(c *lib.Ctx, cs *wbCase, a *wbAgg) wbResult {
	t := client.VerifNewTopology(cs.Revive)
	m := newWbModel(cs.Revive)
	var trace []string
	violated := false
	fail := func(ei int, key, what string) {
		if violated {
			return
		}
		// the ex-primary starvation class changes no state the model tracks (selection only):
		// the sequence goes on after reporting it; anything else ends the sequence
		if key != keyExPrimaryStarved {
			violated = true
		}
		cp := *cs
		cp.FailedAt = ei
		cp.Trace = append([]string{}, trace...)
		c.Violation(key, fmt.Sprintf("white-box case %s, event %d: %s; model state: %s", cs.ID, ei, what, m.String()), cp)
	}
	var nUpdates, nSwapsExP, nPromoted, nNext, nErr, nWin int
	prefMask := 0

	// one monitored NextReadEndpoint call; returns the url ("" on error)
	next := func(ei int, pref client.ReadPref, inWindow bool) string {
		perm := m.permitted(pref)
		sig := m.stateSig(pref)
		url, err := t.NextReadEndpoint(pref)
		a.count("wb_next_calls", 1)
		nNext++
		prefMask |= 1 << uint(pref)
		if err != nil {
			nErr++
			a.see("wb_pref_state", sig+"/-> no-endpoint")
			trace = append(trace, fmt.Sprintf("%d: Next(%s) -> %v  [permitted %v]", ei, prefNames[pref], err, perm))
			if err != client.ErrNoEndpoint {
				fail(ei, "C20:topology.NextReadEndpoint:unexpected-error", fmt.Sprintf("NextReadEndpoint(%s) returned unexpected error %v", prefNames[pref], err))
			} else if len(perm) > 0 {
				a.count("wb_no_endpoint_while_permitted", 1)
				key := fmt.Sprintf("C20:topology.NextReadEndpoint:%s:no-endpoint-while-live-permitted", prefNames[pref])
				if m.allExPrimary(perm) {
					key = keyExPrimaryStarved
				}
				fail(ei, key, fmt.Sprintf("NextReadEndpoint(%s) = ErrNoEndpoint although live permitted endpoints exist: %v", prefNames[pref], perm))
			} else {
				a.count("wb_no_endpoint_justified", 1)
			}
			if m.revive {
				for u := range m.dead {
					m.dead[u] = false
				}
				a.count("wb_revive_all", 1)
			}
			return ""
		}
		role := "secondary"
		if url == m.primary {
			role = "primary"
		}
		a.see("wb_pref_state", sig+"/-> "+role)
		if !inWindow {
			trace = append(trace, fmt.Sprintf("%d: Next(%s) -> %s  [permitted %v]", ei, prefNames[pref], url, perm))
		}
		switch {
		case !m.inTopology(url):
			fail(ei, "C20:topology.NextReadEndpoint:endpoint-outside-last-update", fmt.Sprintf("NextReadEndpoint(%s) returned %s which is not in the topology of the last Update", prefNames[pref], url))
		case m.dead[url]:
			fail(ei, fmt.Sprintf("C20:topology.NextReadEndpoint:%s:selected-dead-endpoint", prefNames[pref]), fmt.Sprintf("NextReadEndpoint(%s) returned %s which is marked dead", prefNames[pref], url))
		case !contains(perm, url):
			key := fmt.Sprintf("C20:topology.NextReadEndpoint:%s:selected-excluded-endpoint", prefNames[pref])
			if pref == client.SecondaryPreferred && url == m.primary && m.allExPrimary(perm) {
				// fell through to the primary because the only live secondaries are ex-primaries
				key = keyExPrimaryStarved
			}
			fail(ei, key, fmt.Sprintf("NextReadEndpoint(%s) returned %s (%s) which the preference excludes; permitted: %v", prefNames[pref], url, role, perm))
		default:
			a.count("wb_selection_permitted", 1)
		}
		return url
	}

	for ei, ev := range cs.Events {
		if violated {
			break
		}
		a.count("wb_event_"+ev.Kind, 1)
		switch ev.Kind {
		case "update":
			if m.primary != "" && m.primary != ev.Primary && contains(ev.Secs, m.primary) {
				nSwapsExP++
				a.count("wb_update_ex_primary_relisted_as_secondary", 1)
			}
			if contains(m.secs, ev.Primary) {
				nPromoted++
				a.count("wb_update_secondary_promoted", 1)
			}
			if m.primary == ev.Primary {
				a.count("wb_update_same_primary", 1)
			}
			deadKept := 0
			for _, s := range ev.Secs {
				if m.inTopology(s) && m.dead[s] {
					deadKept++
				}
			}
			if deadKept > 0 {
				a.count("wb_update_keeps_dead_secondary", 1)
			}
			t.Update(ev.Primary, ev.Secs...)
			m.update(ev.Primary, ev.Secs)
			nUpdates++
			trace = append(trace, fmt.Sprintf("%d: Update(%s, %v)", ei, ev.Primary, ev.Secs))
		case "dead":
			t.MarkDead(ev.URL)
			if m.inTopology(ev.URL) {
				m.dead[ev.URL] = true
			} else {
				a.count("wb_mark_outside_topology", 1)
			}
			trace = append(trace, fmt.Sprintf("%d: MarkDead(%s)", ei, ev.URL))
		case "alive":
			t.MarkAlive(ev.URL)
			if m.inTopology(ev.URL) {
				m.dead[ev.URL] = false
			} else {
				a.count("wb_mark_outside_topology", 1)
			}
			trace = append(trace, fmt.Sprintf("%d: MarkAlive(%s)", ei, ev.URL))
		case "primary":
			url, err := t.Primary()
			a.count("wb_primary_calls", 1)
			trace = append(trace, fmt.Sprintf("%d: Primary() -> %q %v", ei, url, err))
			if url != m.primary {
				fail(ei, "C20:topology.Primary:not-the-believed-leader", fmt.Sprintf("Primary() = %q but the last Update named %q the leader", url, m.primary))
			}
			if m.primary == "" && err != client.ErrNoPrimary {
				fail(ei, "C20:topology.Primary:no-primary-not-reported", fmt.Sprintf("Primary() on a topology without primary returned %q, %v", url, err))
			}
		case "next":
			next(ei, client.ReadPref(ev.Pref), false)
		case "window":
			pref := client.ReadPref(ev.Pref)
			cand := m.permitted(pref)
			if len(cand) == 0 {
				// nothing to cycle over: a single call (checked as a normal call)
				next(ei, pref, false)
				break
			}
			// no state change inside the window: only successful calls are made (a failing call
			// may revive endpoints; the loop stops at the first failure, which `next` has judged)
			rounds := 2
			counts := map[string]int{}
			var order []string
			ok := true
			for k := 0; k < rounds*len(cand); k++ {
				u := next(ei, pref, true)
				if u == "" || violated || !contains(cand, u) {
					ok = false
					break
				}
				counts[u]++
				order = append(order, u)
			}
			trace = append(trace, fmt.Sprintf("%d: Window(%s) x%d -> %v  [candidates %v]", ei, prefNames[pref], rounds*len(cand), order, cand))
			if !ok {
				break
			}
			nWin++
			a.count("wb_windows", 1)
			if len(cand) >= 2 {
				a.count("wb_windows_multi_candidate", 1)
				a.see("wb_window_shapes", fmt.Sprintf("%s/candidates=%d", prefNames[pref], len(cand)))
			}
			min, max := 1<<30, 0
			for _, u := range cand {
				if counts[u] < min {
					min = counts[u]
				}
				if counts[u] > max {
					max = counts[u]
				}
			}
			if max-min > 1 {
				var starved []string
				for _, u := range cand {
					if counts[u] < max-1 {
						starved = append(starved, u)
					}
				}
				sort.Strings(starved)
				key := fmt.Sprintf("C20:topology.NextReadEndpoint:%s:unfair-round-robin", prefNames[pref])
				if m.allExPrimary(starved) {
					key = keyExPrimaryStarved
				}
				fail(ei, key, fmt.Sprintf("over %d consecutive NextReadEndpoint(%s) calls without state change the live permitted candidates %v were chosen %v times (under-served: %v)", rounds*len(cand), prefNames[pref], cand, counts, starved))
			} else {
				a.count("wb_windows_fair", 1)
			}
		}
	}
	bucket := func(n int) string {
		if n >= 3 {
			return "3+"
		}
		return fmt.Sprint(n)
	}
	sig := fmt.Sprintf("wb/revive=%v/urls=%d/upd=%s/exP=%s/promo=%s/prefs=%02x/err=%s/win=%s", cs.Revive, cs.URLs, bucket(nUpdates), bucket(nSwapsExP), bucket(nPromoted), prefMask, bucket(nErr), bucket(nWin))
	return wbResult{sig: sig, nontrivial: nUpdates >= 1 && nNext >= 2}
}

func runWhiteBox(c *lib.Ctx) {
	n := c.Q(20000, 1000000)
	nEvents := 30
	r0 := c.Rand("whitebox")
	seeds := make([]uint64, n)
	for i := range seeds {
		seeds[i] = r0.Uint64()
	}
	workers := 8
	var wg sync.WaitGroup
	aggs := make([]*wbAgg, workers)
	for w := 0; w < workers; w++ {
		aggs[w] = newWbAgg()
		wg.Add(1)
		go func(w int) {
			defer wg.Done()
			a := aggs[w]
			for i := w; i < n; i += workers {
				id := fmt.Sprintf("wb-%d", i)
				if c.Only != "" && c.Only != id {
					continue
				}
				cs := genWbCase(lib.NewRand(seeds[i]), id, nEvents)
				res := runWbCase(c, cs, a)
				c.Case(res.sig, res.nontrivial)
				a.count("wb_sequences", 1)
				if i < 2 {
					c.Sample(cs)
				}
			}
		}(w)
	}
	wg.Wait()
	for _, a := range aggs {
		a.flush(c)
	}
}
