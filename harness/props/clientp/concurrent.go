package clientp

import (
	"fmt"
	"sync"

	"github.com/bbva/qed/client"

	"qedverif/lib"
)

// runConcurrentSelection: several goroutines select read endpoints from ONE shared topology whose state
// does not change meanwhile. Selection is serialised by the topology, so even under concurrency every result
// must be a live permitted endpoint, no call may panic, and - the number of calls being a multiple of the
// number of candidates - the round-robin must have served every candidate exactly the same number of times.
func runConcurrentSelection(c *lib.Ctx) {
	r := c.Rand("concurrent-selection")
	for k := 0; k < c.Q(12, 120); k++ {
		id := fmt.Sprintf("cc-%d", k)
		if c.Only != "" && c.Only != id {
			continue
		}
		nsec := r.Range(2, 5)
		t := client.VerifNewTopology(false)
		var secs []string
		for i := 1; i <= nsec; i++ {
			secs = append(secs, wbURL(i))
		}
		t.Update(wbURL(0), secs...)
		dead := map[string]bool{}
		if nsec > 2 && r.Bool() {
			d := secs[r.Intn(nsec)]
			t.MarkDead(d)
			dead[d] = true
		}
		pref := []client.ReadPref{client.Secondary, client.SecondaryPreferred, client.Any}[r.Intn(3)]
		cand := map[string]bool{}
		for _, s := range secs {
			if !dead[s] {
				cand[s] = true
			}
		}
		if pref == client.Any {
			cand[wbURL(0)] = true
		}
		goroutines := r.Pick(2, 4, 8, 16)
		per := len(cand) * r.Range(200, 1500)
		counts := make([]map[string]int, goroutines)
		var wg sync.WaitGroup
		var mu sync.Mutex
		var problems []string
		for g := 0; g < goroutines; g++ {
			counts[g] = map[string]int{}
			wg.Add(1)
			go func(g int) {
				defer wg.Done()
				for i := 0; i < per; i++ {
					var u string
					var err error
					pan, msg := lib.Recover(func() { u, err = t.NextReadEndpoint(pref) })
					if pan || err != nil || !cand[u] {
						mu.Lock()
						if len(problems) < 3 {
							problems = append(problems, fmt.Sprintf("call returned (%q, %v) panic=%v %s", u, err, pan, msg))
						}
						mu.Unlock()
						if pan {
							return
						}
						continue
					}
					counts[g][u]++
				}
			}(g)
		}
		wg.Wait()
		total := map[string]int{}
		for _, m := range counts {
			for u, n := range m {
				total[u] += n
			}
		}
		c.Count("cc_concurrent_selections", int64(goroutines*per))
		detail := map[string]interface{}{"id": id, "goroutines": goroutines, "calls_per_goroutine": per, "preference": fmt.Sprint(pref), "candidates": len(cand), "served": total}
		if len(problems) > 0 {
			c.Violation("C20:concurrent-selection:bad-result", fmt.Sprintf("case %s: with %d goroutines selecting from one unchanged topology: %s", id, goroutines, problems[0]), detail)
		} else {
			want := goroutines * per / len(cand)
			for u := range cand {
				if total[u] != want {
					c.Violation("C20:concurrent-selection:unfair-round-robin", fmt.Sprintf("case %s: %d goroutines x %d selections over %d candidates of an unchanged topology served %v (every candidate should be served %d times)", id, goroutines, per, len(cand), total, want), detail)
					break
				}
			}
		}
		c.Case(fmt.Sprintf("concurrent/g%d/cand%d/%v", goroutines, len(cand), pref), true)
	}
}
