// Package clientp holds the runtime monitors for C20 (client endpoint selection, leader-only
// writes, convergence after a leader change, bounded calls).
package clientp

import (
	"bufio"
	"fmt"
	"os"
	"os/exec"
	"path/filepath"
	"regexp"
	"sort"
	"strconv"
	"strings"
	"sync"
	"time"

	"qedverif/lib"
)

// Workers are child-process entry points (qv worker <name> args...).
var Workers = map[string]func(args []string) int{
	"c20-race": raceWorker,
}

func RunC20(c *lib.Ctx) {
	c.Rule = "white-box case = seeded sequence of 30 events (Update incl. role swaps / MarkDead / MarkAlive / NextReadEndpoint(pref) / fairness window / Primary) on the real topology object, judged call by call against a declarative model of believed topology, dead marks and permitted sets; non-trivial = >=1 Update and >=2 selections; distinct by (revive, #urls, #updates, #ex-primary-relisted, #promotions, preferences used, #errors, #windows). " +
		"black-box case = seeded scenario (shape, client construction path, read preference, discovery/health/revive/retries, scripted per-node outcomes and view changes) run with a real HTTPClient against recording httptest servers; judged on the request log; non-trivial = >=2 steps; distinct by (shape, client kind, nodes, preference, options, #call kinds, #changes)."
	c.Assume = []string{
		"the believed topology is what the scripted servers told the client last (initial URLs, 200 answers to GET /info/shards, 301 answers carrying a shards body)",
		"an Update legitimately resets the dead mark of the (new) primary and keeps the mark of a url that stays listed as a secondary; with attemptToRevive a failing selection marks every endpoint alive",
		"request budget per call: (maxRetries+1) x (nodes+1) x 10 + 20 requests; exceeding it is the refutation of 'terminates within the configured number of attempts' (decided on counts, never on time)",
		"Go's net/http turns a 301 answer to a POST into a GET to the Location header; that follow-up request is not judged",
	}
	phases := map[string]float64{} // information only
	timed := func(name string, f func()) {
		t0 := time.Now()
		f()
		phases[name] = time.Since(t0).Seconds()
	}
	if c.Only == "" || strings.HasPrefix(c.Only, "wb-") {
		timed("whitebox", func() { runWhiteBox(c) })
	}
	if c.Only == "" || strings.HasPrefix(c.Only, "cc-") {
		timed("concurrent_selection", func() { runConcurrentSelection(c) })
	}
	if c.Only == "" || strings.HasPrefix(c.Only, "bb-") {
		timed("blackbox", func() { runBlackBox(c) })
	}
	if c.Only == "" {
		timed("race_diagnostic", func() { runRaceDiagnostic(c) })
	}
	c.Extra("phase_wall_s", phases)
	if c.Only == "" && (c.Counter("wb_next_calls") == 0 || c.Counter("bb_requests_recorded") == 0) {
		c.Inconclusive("C20: a monitor observed nothing")
	}
}

// ---------- race diagnostic (information only) ----------

var raceFrame = regexp.MustCompile(`^\s+github\.com/bbva/qed/client\.(\S+?)(\(\))?$`)

func runRaceDiagnostic(c *lib.Ctx) {
	bin := os.Getenv("QV_RACE_BIN")
	if bin == "" {
		c.Extra("race_diagnostic", "skipped: QV_RACE_BIN not set")
		return
	}
	if _, err := os.Stat(bin); err != nil {
		c.Extra("race_diagnostic", "skipped: "+err.Error())
		return
	}
	dir := c.Dir("race")
	n := c.Q(40, 320)
	const batch = 8
	type res struct {
		exit, panicLine, panicFrame, stdout string
	}
	nb := (n + batch - 1) / batch
	results := make([]res, nb)
	cmdlog, _ := os.Create(filepath.Join(dir, "cmd.txt"))
	var lmu sync.Mutex
	var wg sync.WaitGroup
	sem := make(chan struct{}, 4)
	for b := 0; b < nb; b++ {
		wg.Add(1)
		go func(b int) {
			defer wg.Done()
			sem <- struct{}{}
			defer func() { <-sem }()
			cmd := exec.Command(bin, "worker", "c20-race", dir, strconv.FormatInt(c.Seed, 10), strconv.Itoa(b*batch), strconv.Itoa(batch))
			cmd.Env = append(os.Environ(), fmt.Sprintf("GORACE=halt_on_error=0 log_path=%s", filepath.Join(dir, fmt.Sprintf("race-b%d", b))))
			errPath := filepath.Join(dir, fmt.Sprintf("stderr-b%d.txt", b))
			errf, _ := os.Create(errPath)
			var out strings.Builder
			cmd.Stderr, cmd.Stdout = errf, &out
			lmu.Lock()
			fmt.Fprintln(cmdlog, strings.Join(cmd.Args, " "))
			lmu.Unlock()
			if err := cmd.Start(); err != nil {
				results[b].exit = "cannot start: " + err.Error()
				return
			}
			done := make(chan error, 1)
			go func() { done <- cmd.Wait() }()
			var werr error
			select {
			case werr = <-done:
			case <-time.After(3 * time.Minute):
				cmd.Process.Kill()
				<-done
				results[b].exit = "killed by the watchdog"
				return
			}
			errf.Close()
			results[b].exit = "0"
			results[b].stdout = strings.TrimSpace(out.String())
			if werr != nil {
				results[b].exit = werr.Error()
				if buf, err := os.ReadFile(errPath); err == nil {
					t := string(buf)
					if i := strings.Index(t, "panic:"); i >= 0 {
						results[b].panicLine = firstLine(t[i:])
						for _, line := range strings.Split(t[i:], "\n") {
							if strings.HasPrefix(line, "github.com/bbva/qed/client.") {
								results[b].panicFrame = line
								break
							}
						}
					}
				}
			}
		}(b)
	}
	wg.Wait()
	cmdlog.Close()
	info := map[string]interface{}{"scenarios": nb * batch, "worker_processes": nb}
	exits := map[string]int{}
	panics := map[string]int{}
	done := 0
	for _, r := range results {
		exits[r.exit]++
		if r.panicLine != "" {
			panics[r.panicLine+" @ "+r.panicFrame]++
		}
		if strings.HasPrefix(r.stdout, "scenarios=") {
			done++
		}
	}
	info["worker_exits"] = exits
	info["workers_completed_all_scenarios"] = done
	if len(panics) > 0 {
		info["worker_process_crashes"] = panics
		info["crash_note"] = "the workers print their summary before closing the clients; a crash after that is HTTPClient.Close racing with the periodic health checker (Close sets topology=nil while clusterHealthCheck dereferences it)"
	}
	blocks := 0
	sites := map[string]int{}
	files, _ := filepath.Glob(filepath.Join(dir, "race-b*"))
	for _, fn := range files {
		f, err := os.Open(fn)
		if err != nil {
			continue
		}
		sc := bufio.NewScanner(f)
		sc.Buffer(make([]byte, 1<<20), 1<<20)
		inBlock, got := false, 0
		var pair []string
		for sc.Scan() {
			line := sc.Text()
			if strings.Contains(line, "WARNING: DATA RACE") {
				blocks++
				inBlock, got, pair = true, 0, nil
				continue
			}
			if inBlock && (strings.HasPrefix(line, "Goroutine ") || strings.HasPrefix(line, "====")) {
				inBlock = false
				if len(pair) > 0 {
					sort.Strings(pair)
					sites[strings.Join(pair, " <-> ")]++
				}
				continue
			}
			if inBlock {
				// first client-package frame of each of the two access stacks
				if strings.HasPrefix(line, "Read at") || strings.HasPrefix(line, "Write at") || strings.HasPrefix(line, "Previous ") {
					got = 0
				}
				if m := raceFrame.FindStringSubmatch(line); m != nil && got == 0 {
					pair = append(pair, m[1])
					got = 1
				}
			}
		}
		f.Close()
	}
	info["data_race_reports"] = blocks
	info["race_sites_in_client_package"] = sites
	info["note"] = "diagnostic only: data races and the Close crash are not part of C20's statement and are not counted as violations"
	c.Extra("race_diagnostic", info)
	c.Count("race_diag_reports", int64(blocks))
	c.Count("race_diag_scenarios", int64(nb*batch))
}

// raceWorker: qv-race worker c20-race <dir> <seed> <first> <count>. Runs black-box scenarios
// first..first+count-1 with a fast periodic health checker and two goroutines sharing one client.
// No verdicts. The summary line is printed before the clients are closed.
func raceWorker(args []string) int {
	if len(args) < 4 {
		fmt.Fprintln(os.Stderr, "usage: c20-race <dir> <seed> <first> <count>")
		return 2
	}
	seed, _ := strconv.ParseInt(args[1], 10, 64)
	first, _ := strconv.Atoi(args[2])
	count, _ := strconv.Atoi(args[3])
	r0 := lib.NewRand(uint64(seed)*0x9e3779b97f4a7c15 ^ 0xc20)
	shapes := []string{"steady", "leader-change-redirect", "leader-fail-down", "leader-fail-sick", "faults", "shards-mixed", "member-removed", "wrong-initial-primary"}
	steps := 0
	type opened struct {
		cl  interface{ Close() }
		run *bbRun
	}
	var open []opened
	for i := 0; i < first+count; i++ {
		sd := r0.Uint64()
		if i < first {
			continue
		}
		sc := genBBScenario(lib.NewRand(sd), fmt.Sprintf("race-%d", i), shapes[i%len(shapes)])
		sc.Health = true
		sc.MaxRetries = 0
		for k := range sc.Shards {
			if sc.Shards[k] == "4xx" {
				sc.Shards[k] = "5xx" // no request cap here: keep clear of the known discover() loop
			}
		}
		r := startBB(sc)
		r.capN = 1 << 30
		cl, err := newBBClient(sc, r, 2*time.Millisecond)
		if err != nil || cl == nil {
			r.stop()
			continue
		}
		var wg sync.WaitGroup
		for g := 0; g < 2; g++ {
			wg.Add(1)
			go func(g int) {
				defer wg.Done()
				for _, st := range sc.Steps {
					if st.Op != "call" {
						if g == 0 {
							r.apply(st)
						}
						continue
					}
					lib.Recover(func() { doCall(cl, st.Call) })
					time.Sleep(time.Millisecond)
				}
			}(g)
		}
		wg.Wait()
		steps += 2 * len(sc.Steps)
		open = append(open, opened{cl, r})
	}
	fmt.Printf("scenarios=%d steps=%d\n", len(open), steps)
	os.Stdout.Sync()
	for _, o := range open {
		lib.Recover(o.cl.Close)
		time.Sleep(5 * time.Millisecond)
		o.run.stop()
	}
	time.Sleep(50 * time.Millisecond)
	return 0
}
