package hostile

import (
	"bytes"
	"encoding/base64"
	"encoding/hex"
	"encoding/json"
	"fmt"
	"sort"
	"strings"

	"github.com/bbva/qed/crypto/hashing"
	"github.com/bbva/qed/protocol"

	"qedverif/lib"
)

// ---------- one hostile case ----------

// storeScript scripts the snapshot store: Calls[k] is the reply to the k-th GET /snapshot of the
// case (the last entry repeats); a nil Body means "reply with the genuine signed snapshot of the
// requested version (404 when the log has no such version)".
type storeReply struct {
	Body    []byte `json:"body"`
	Status  int    `json:"status"`
	Genuine bool   `json:"genuine"`
}

type hcase struct {
	ID        string       `json:"id"`
	Idx       int          `json:"-"`
	Target    string       `json:"target"`
	Gen       string       `json:"generator"` // generator class (evidence histogram)
	Desc      string       `json:"mutation"`  // human-readable detail
	Item      int          `json:"genuine_item"`
	Body      []byte       `json:"-"` // the server's answer bytes
	Status    int          `json:"status"`
	Store     []storeReply `json:"-"`
	StoreDesc string       `json:"store"`
	Untouched bool         `json:"untouched"`
}

const (
	tDirectM     = "direct-membership"        // json -> ToBalloonProof -> DigestVerify -> Verify
	tDirectI     = "direct-incremental"       // json -> ToIncrementalProof -> IncrementalProof.Verify
	tCliM        = "client-membership"        // HTTPClient.Membership + MembershipVerify
	tCliMD       = "client-membership-digest" // HTTPClient.MembershipDigest + MembershipVerify
	tCliMAuto    = "client-membership-auto"   // HTTPClient.MembershipAutoVerify (server + snapshot store)
	tCliI        = "client-incremental"       // HTTPClient.Incremental + IncrementalVerify
	tCliIAuto    = "client-incremental-auto"  // HTTPClient.IncrementalAutoVerify
	tCliSnap     = "client-getsnapshot"       // HTTPClient.GetSnapshot
	tStoreSnap   = "store-getsnapshot"        // gossip.RestSnapshotStore.GetSnapshot (auditor's store client)
	maxBodyBytes = 8 << 20                    // transport-size limit of generated answers (bigger is out of scope)
)

var targetTable = []struct {
	name string
	w    int
}{
	{tDirectM, 30}, {tDirectI, 18}, {tCliM, 6}, {tCliMD, 7}, {tCliMAuto, 11}, {tCliI, 8}, {tCliIAuto, 9}, {tCliSnap, 5}, {tStoreSnap, 6},
}

func pickTarget(r *lib.Rand) string {
	tot := 0
	for _, t := range targetTable {
		tot += t.w
	}
	x := r.Intn(tot)
	for _, t := range targetTable {
		if x < t.w {
			return t.name
		}
		x -= t.w
	}
	return tDirectM
}

func isMembershipTarget(t string) bool {
	return t == tDirectM || t == tCliM || t == tCliMD || t == tCliMAuto
}
func isIncrementalTarget(t string) bool { return t == tDirectI || t == tCliI || t == tCliIAuto }

func caseRand(seed int64, idx int) *lib.Rand {
	return lib.NewRand(uint64(seed)*0x9e3779b97f4a7c15 ^ (uint64(idx)+1)*0xd6e8feb86659fd93 ^ 0xc12c12c12)
}

// genCase derives case idx from (seed, corpus) only.
func genCase(cp *corpus, idx int, thorough bool) *hcase {
	if idx < len(canonTable) {
		return canonCase(cp, idx)
	}
	r := caseRand(cp.Seed, idx)
	hc := &hcase{ID: fmt.Sprint(idx), Idx: idx, Status: 200}
	hc.Target = pickTarget(r)
	switch {
	case isMembershipTarget(hc.Target):
		hc.Item = cp.m[r.Intn(len(cp.m))]
	case isIncrementalTarget(hc.Target):
		hc.Item = cp.i[r.Intn(len(cp.i))]
	default:
		hc.Item = r.Intn(len(cp.Items))
	}
	it := &cp.Items[hc.Item]

	storeHostile := false
	switch hc.Target {
	case tCliMAuto, tCliIAuto:
		storeHostile = r.Intn(100) < 45
	case tCliSnap, tStoreSnap:
		storeHostile = true
	}
	// the proof answer
	if hc.Target == tCliSnap || hc.Target == tStoreSnap {
		hc.Body, hc.Gen, hc.Desc = nil, "snapshot-only", ""
	} else if storeHostile && r.Intn(100) < 70 {
		hc.Body, hc.Gen, hc.Desc = it.Body, "genuine-answer", "answer untouched, snapshot store hostile"
	} else {
		hc.Body, hc.Gen, hc.Desc = genAnswer(r, cp, it, thorough)
	}
	if hc.Gen == "untouched" {
		hc.Untouched = true
	}
	// answer status
	if hc.Body != nil {
		switch r.Intn(200) {
		case 0:
			hc.Status = 201
		case 1:
			hc.Status = 404
		case 2:
			hc.Status = 500
		case 3:
			hc.Status = 204
		case 4:
			hc.Status = 400
		}
		if hc.Status != 200 {
			hc.Desc += fmt.Sprintf(" status=%d", hc.Status)
		}
	}
	// the snapshot store
	if storeHostile {
		hc.Untouched = false
		var descs []string
		ncalls := 1
		if hc.Target == tCliMAuto || hc.Target == tCliIAuto {
			ncalls = 2
		}
		hostileAt := r.Intn(ncalls + 1) // which call turns hostile (== ncalls: all)
		for k := 0; k < ncalls; k++ {
			if hostileAt != ncalls && k != hostileAt {
				hc.Store = append(hc.Store, storeReply{Genuine: true, Status: 200})
				descs = append(descs, "genuine")
				continue
			}
			var snap protocol.Snapshot
			if k == 0 {
				snap = it.SnapH
			} else {
				snap = it.SnapC
			}
			b, st, g, d := genSnapshotReply(r, snap)
			hc.Store = append(hc.Store, storeReply{Body: b, Status: st})
			descs = append(descs, g+":"+d)
			if hc.Gen == "snapshot-only" || hc.Gen == "genuine-answer" {
				hc.Gen = "store/" + g
			}
		}
		hc.StoreDesc = strings.Join(descs, " ; ")
	} else {
		hc.Store = []storeReply{{Genuine: true, Status: 200}}
		hc.StoreDesc = "genuine"
	}
	return hc
}

// ---------- answers ----------

func genAnswer(r *lib.Rand, cp *corpus, it *gItem, thorough bool) (body []byte, gen, desc string) {
	x := r.Intn(100)
	switch {
	case x < 1:
		return it.Body, "untouched", "genuine answer"
	case x < 45:
		return genBytes(r, it.Body, it.Kind)
	default:
		if it.Kind == "m" {
			return genStructM(r, cp, it, thorough)
		}
		return genStructI(r, cp, it, thorough)
	}
}

// ----- byte-level generators over the JSON text -----

type jfield struct {
	k string
	v []byte
}

func parseObj(b []byte) []jfield {
	var m map[string]json.RawMessage
	if json.Unmarshal(b, &m) != nil {
		return nil
	}
	ks := make([]string, 0, len(m))
	for k := range m {
		ks = append(ks, k)
	}
	sort.Strings(ks)
	out := make([]jfield, 0, len(ks))
	for _, k := range ks {
		out = append(out, jfield{k, m[k]})
	}
	return out
}

func emitObj(fs []jfield) []byte {
	var buf bytes.Buffer
	buf.WriteByte('{')
	for i, f := range fs {
		if i > 0 {
			buf.WriteByte(',')
		}
		kb, _ := json.Marshal(f.k)
		buf.Write(kb)
		buf.WriteByte(':')
		buf.Write(f.v)
	}
	buf.WriteByte('}')
	return buf.Bytes()
}

func deep(open, close string, n int) string {
	return strings.Repeat(open, n) + strings.Repeat(close, n)
}

var confusions = []string{
	`null`, `true`, `false`, `0`, `1`, `-1`, `-0`, `1.5`, `1e2`, `1e400`, `-1e400`, `18446744073709551615`, `18446744073709551616`,
	`9223372036854775807`, `9223372036854775808`, `340282366920938463463374607431768211456`, `0.0000000000000000000001`,
	`""`, `"x"`, `"12"`, `"AA=="`, `"!!!"`, `"\u0000"`, `[]`, `[1,2,3]`, `["AA=="]`, `[[]]`, `[null]`, `{}`, `{"a":1}`,
	`{"1|0":"AA=="}`, `{"x":"AA=="}`, `{"":""}`, `{"1|0":5}`, `{"1|0":null}`, `{"1|0":[]}`, `{"0x00|256":"AA=="}`, `{"|":"AA=="}`,
	`{"1|0":"AA==","1|0":"AQ=="}`,
}

func confusion(r *lib.Rand) (string, string) {
	switch r.Intn(40) {
	case 0:
		return deep("[", "]", 64), "deep-array-64"
	case 1:
		return deep("[", "]", 10001), "deep-array-10001"
	case 2:
		return deep(`{"a":`, "}", 5000)[:5000*5] + "1" + strings.Repeat("}", 5000), "deep-object-5000"
	case 3:
		return `"` + strings.Repeat("A", r.Pick(1, 2, 3, 5, 4096, 65536)) + `"`, "long-string"
	case 4:
		return fmt.Sprintf("%d", r.Uint64()), "random-uint64"
	case 5:
		return "1" + strings.Repeat("0", r.Pick(19, 20, 30, 400, 5000)), "huge-integer"
	}
	v := confusions[r.Intn(len(confusions))]
	return v, v
}

var mapFields = map[string]bool{"Hyper": true, "History": true, "AuditPath": true, "Snapshot": true}

var wholeBodies = []string{
	`null`, `{}`, `[]`, `""`, `0`, `true`, ``, ` `, "\n", `{"Hyper":null,"History":null}`, `{"Exists":true}`, `{"AuditPath":{}}`, `{"AuditPath":null}`,
	"\xef\xbb\xbf{}", `{"History":{"":""}}`, `{"History":{"7":"AA=="}}`, `{"AuditPath":{"7":"AA=="}}`, `nul`, `{`, `{"Hyper":{`, `[{}]`, `{"Start":1,"End":0}`,
	`{}{}`, `{} x`, "\xff\xfe\x00", `{"Exists":true,"Hyper":{"0x00|255":"AA=="},"History":{},"KeyDigest":""}`, `{"Start":0,"End":0}`,
	`{"Start":18446744073709551615,"End":18446744073709551615,"AuditPath":{}}`, `"null"`, `[null]`, `{"a":`, `{"Exists":1}`, `NaN`, `Infinity`, `-`, `{"Hyper":{"a":"AA=="},"Exists":true,"ActualVersion":0,"QueryVersion":0}`,
}

func genBytes(r *lib.Rand, genuine []byte, kind string) (body []byte, gen, desc string) {
	fs := parseObj(genuine)
	switch r.Intn(11) {
	case 0: // truncation
		n := r.Intn(len(genuine) + 1)
		if r.Intn(4) == 0 {
			n = r.Intn(12)
		}
		return append([]byte{}, genuine[:n]...), "byte/truncate", fmt.Sprintf("cut at %d of %d", n, len(genuine))
	case 1, 2: // type confusion of a top-level field
		k := r.Intn(len(fs))
		v, d := confusion(r)
		fs[k].v = []byte(v)
		return emitObj(fs), "byte/type-confusion", fmt.Sprintf("field %s := %s", fs[k].k, d)
	case 3: // type confusion / corruption of a nested map entry
		var cands []int
		for i, f := range fs {
			if mapFields[f.k] && len(f.v) > 4 {
				cands = append(cands, i)
			}
		}
		if len(cands) == 0 {
			return []byte(`null`), "byte/whole-body", "null"
		}
		fi := cands[r.Intn(len(cands))]
		inner := parseObj(fs[fi].v)
		if len(inner) == 0 {
			fs[fi].v = []byte(`{"1|0":7}`)
			return emitObj(fs), "byte/type-confusion", fmt.Sprintf("%s := {\"1|0\":7}", fs[fi].k)
		}
		k := r.Intn(len(inner))
		v, d := confusion(r)
		inner[k].v = []byte(v)
		fs[fi].v = emitObj(inner)
		return emitObj(fs), "byte/type-confusion-nested", fmt.Sprintf("%s[%s] := %s", fs[fi].k, inner[k].k, d)
	case 4: // whole body replaced
		if r.Intn(12) == 0 {
			n := r.Pick(100, 9999, 10000, 10001, 100000)
			return []byte(deep("[", "]", n)), "byte/deep-nesting", fmt.Sprintf("array depth %d", n)
		}
		if r.Intn(12) == 0 {
			n := r.Pick(100, 9999, 10001, 50000)
			return []byte(strings.Repeat(`{"Hyper":`, n) + "null" + strings.Repeat("}", n)), "byte/deep-nesting", fmt.Sprintf("object depth %d", n)
		}
		b := wholeBodies[r.Intn(len(wholeBodies))]
		return []byte(b), "byte/whole-body", fmt.Sprintf("%q", b)
	case 5: // huge / odd numbers in the version fields
		var cands []int
		for i, f := range fs {
			switch f.k {
			case "CurrentVersion", "QueryVersion", "ActualVersion", "Start", "End", "Version":
				cands = append(cands, i)
			}
		}
		if len(cands) == 0 {
			return []byte(`{}`), "byte/whole-body", "{}"
		}
		k := cands[r.Intn(len(cands))]
		nums := []string{`1e400`, `18446744073709551616`, `18446744073709551615`, `9223372036854775808`, `-1`, `-0`, `1E2`, `00012`, `1.0`, `0x10`, `+1`, `1e-400`, `"5"`, `5.0e0`, `١`, `1_000`, `.5`, `5.`}
		v := nums[r.Intn(len(nums))]
		fs[k].v = []byte(v)
		return emitObj(fs), "byte/huge-number", fmt.Sprintf("%s := %s", fs[k].k, v)
	case 6: // duplicate keys (the decoder merges maps / last scalar wins), case-variant names
		k := r.Intn(len(fs))
		name := fs[k].k
		switch r.Intn(3) {
		case 0:
			name = strings.ToLower(name)
		case 1:
			name = strings.ToUpper(name)
		}
		v, d := confusion(r)
		if r.Intn(3) == 0 {
			v, d = string(fs[k].v), "same value again"
		}
		dup := jfield{name, []byte(v)}
		if r.Bool() {
			fs = append(fs, dup)
		} else {
			fs = append([]jfield{dup}, fs...)
		}
		return emitObj(fs), "byte/duplicate-key", fmt.Sprintf("second %q := %s", name, d)
	case 7: // invalid base64 in a digest
		return genBadBase64(r, fs)
	case 8, 9: // random byte edits
		b := append([]byte{}, genuine...)
		n := r.Range(1, 4)
		var ds []string
		structural := []byte(`{}[]":,|\0x-e.`)
		for e := 0; e < n && len(b) > 0; e++ {
			p := r.Intn(len(b))
			switch r.Intn(4) {
			case 0:
				b[p] ^= 1 << uint(r.Intn(8))
				ds = append(ds, fmt.Sprintf("flip@%d", p))
			case 1:
				b = append(b[:p], b[p+1:]...)
				ds = append(ds, fmt.Sprintf("del@%d", p))
			case 2:
				ch := structural[r.Intn(len(structural))]
				b = append(b[:p], append([]byte{ch}, b[p:]...)...)
				ds = append(ds, fmt.Sprintf("ins %q@%d", ch, p))
			case 3:
				b[p] = structural[r.Intn(len(structural))]
				ds = append(ds, fmt.Sprintf("set %q@%d", b[p], p))
			}
		}
		return b, "byte/random-edit", strings.Join(ds, ",")
	default: // unknown extra fields / field removed
		if r.Bool() {
			k := r.Intn(len(fs))
			d := fs[k].k
			fs = append(fs[:k], fs[k+1:]...)
			return emitObj(fs), "byte/absent-field", "without " + d
		}
		v, d := confusion(r)
		fs = append(fs, jfield{[]string{"Extra", "", "hyper ", "Proof", "\u0000"}[r.Intn(5)], []byte(v)})
		return emitObj(fs), "byte/extra-field", d
	}
}

func genBadBase64(r *lib.Rand, fs []jfield) (body []byte, gen, desc string) {
	// pick a digest: a top-level string field or a value inside a map field
	type loc struct{ f, in int }
	var locs []loc
	inners := map[int][]jfield{}
	for i, f := range fs {
		if len(f.v) > 0 && f.v[0] == '"' {
			locs = append(locs, loc{i, -1})
		}
		if len(f.v) > 0 && f.v[0] == '{' {
			in := parseObj(f.v)
			inners[i] = in
			for j, g := range in {
				if len(g.v) > 0 && g.v[0] == '"' {
					locs = append(locs, loc{i, j})
				}
			}
		}
	}
	if len(locs) == 0 {
		return []byte(`{"KeyDigest":"@@@@"}`), "byte/invalid-base64", "no digest in genuine answer"
	}
	l := locs[r.Intn(len(locs))]
	var old []byte
	if l.in < 0 {
		old = fs[l.f].v
	} else {
		old = inners[l.f][l.in].v
	}
	s := strings.Trim(string(old), `"`)
	var nv, d string
	switch r.Intn(9) {
	case 0:
		nv, d = "@@@@", "non-alphabet"
	case 1:
		if len(s) > 0 {
			p := r.Intn(len(s))
			nv = s[:p] + "*" + s[p+1:]
		} else {
			nv = "*"
		}
		d = "one char replaced by *"
	case 2:
		nv, d = strings.TrimRight(s, "="), "padding dropped"
	case 3:
		nv, d = s+"=", "extra padding"
	case 4:
		nv, d = strings.NewReplacer("+", "-", "/", "_").Replace(s)+"-_", "url-safe alphabet"
	case 5:
		if len(s) > 2 {
			p := r.Intn(len(s))
			nv = s[:p] + `\n` + s[p:]
		} else {
			nv = `\n`
		}
		d = "embedded newline"
	case 6:
		nv, d = s[:len(s)/2], "half of the text"
	case 7:
		nv, d = base64.StdEncoding.EncodeToString(r.Bytes(r.Pick(4096, 65536)))+"!", "long + invalid tail"
	default:
		nv, d = `\u0041\u0041\u003d\u003d`, "unicode escapes"
	}
	if l.in < 0 {
		fs[l.f].v = []byte(`"` + nv + `"`)
		d = fs[l.f].k + ": " + d
	} else {
		inners[l.f][l.in].v = []byte(`"` + nv + `"`)
		fs[l.f].v = emitObj(inners[l.f])
		d = fs[l.f].k + "[" + inners[l.f][l.in].k + "]: " + d
	}
	return emitObj(fs), "byte/invalid-base64", d
}

// ----- structure-level generators over decoded genuine answers -----

func cloneMap(m map[string]hashing.Digest) map[string]hashing.Digest {
	if m == nil {
		return nil
	}
	o := make(map[string]hashing.Digest, len(m))
	for k, v := range m {
		o[k] = v
	}
	return o
}

func sortedKeys(m map[string]hashing.Digest) []string {
	ks := make([]string, 0, len(m))
	for k := range m {
		ks = append(ks, k)
	}
	sort.Strings(ks)
	return ks
}

func digestLen(r *lib.Rand) int {
	switch r.Intn(3) {
	case 0:
		return r.Pick(0, 1, 8, 16, 20, 31, 33, 48, 64, 255, 256, 257, 1024, 4095, 4096)
	case 1:
		return r.Intn(4097)
	}
	return r.Intn(70)
}

var badHistoryKeys = []string{
	"", "|", "||", "5", "abc", "5|", "|5", "5|x", "x|5", "-1|0", "0|-1", "9223372036854775807|0", "9223372036854775808|0",
	"18446744073709551615|0", "18446744073709551616|3", "1|65535", "1|65536", "1|99999999999999999999", "1|2|3", "1||2", " 1|2",
	"1|2 ", "+1|+2", "0x1|2", "1e3|2", "1.0|2", "٣|٢", "1\u0000|2", "0|0 ", "00|00", "1|", "|", "\\|", "1/2", "1,2", "1|2\n",
}

var badHyperKeys = []string{
	"", "|", "0x|256", "0x00|256", "0xzz|3", "0x|", "|255", "0x00", "00|255", "0x0|255", "0x00|-1", "0x00|65536", "0x00|256|1",
	"0X0000000000000000000000000000000000000000000000000000000000000000|255", "0x00|0xff", " 0x00|255", "0x00|255 ",
}

func badKey(r *lib.Rand, hyper bool) string {
	if r.Intn(12) == 0 {
		return strings.Repeat("9", r.Pick(19, 20, 21, 100, 5000)) + "|" + strings.Repeat("9", r.Pick(1, 5, 6, 100))
	}
	if r.Intn(12) == 0 {
		return string(r.Bytes(r.Range(1, 12)))
	}
	if hyper {
		return badHyperKeys[r.Intn(len(badHyperKeys))]
	}
	return badHistoryKeys[r.Intn(len(badHistoryKeys))]
}

func goodHistoryKey(r *lib.Rand) string {
	h := r.Intn(12)
	return fmt.Sprintf("%d|%d", uint64(r.Intn(300))>>uint(h)<<uint(h), h)
}

func goodHyperKey(r *lib.Rand) string {
	h := r.Range(0, 256)
	idx := r.Bytes(32)
	for b := 256 - h; b < 256 && b >= 0; b++ { // clear the bits below the height
		idx[b/8] &^= 1 << uint(7-b%8)
	}
	return fmt.Sprintf("%#x|%d", idx, h)
}

// neighbourKey rewrites a valid key into a nearby valid-looking one (so a needed entry goes
// missing and an unneeded one appears).
func neighbourKey(r *lib.Rand, k string) string {
	t := strings.Split(k, "|")
	if len(t) != 2 {
		return k + "0"
	}
	switch r.Intn(4) {
	case 0:
		return t[0] + "|" + t[1] + "0"
	case 1:
		return t[0] + "0|" + t[1]
	case 2:
		var h int
		fmt.Sscan(t[1], &h)
		return fmt.Sprintf("%s|%d", t[0], h+r.Pick(-1, 1))
	}
	if strings.HasPrefix(t[0], "0x") && len(t[0]) > 4 {
		b, _ := hex.DecodeString(t[0][2:])
		if len(b) > 0 {
			b[r.Intn(len(b))] ^= 1 << uint(r.Intn(8))
		}
		return fmt.Sprintf("%#x|%s", b, t[1])
	}
	var i uint64
	fmt.Sscan(t[0], &i)
	return fmt.Sprintf("%d|%s", i+uint64(r.Pick(1, 2, 4, 8)), t[1])
}

// mutPath applies one audit-path mutation; returns a description ("" = not applicable).
func mutPath(r *lib.Rand, name string, m *map[string]hashing.Digest, hyper bool, thorough bool) string {
	ks := sortedKeys(*m)
	switch r.Intn(9) {
	case 0: // drop entries
		if len(ks) == 0 {
			return ""
		}
		k := 1
		if r.Intn(3) == 0 {
			k = r.Range(1, len(ks))
		}
		p := r.Perm(len(ks))
		for _, j := range p[:k] {
			delete(*m, ks[j])
		}
		return fmt.Sprintf("%s: drop %d of %d entries (first %s)", name, k, len(ks), ks[p[0]])
	case 1: // add entries
		if *m == nil {
			*m = map[string]hashing.Digest{}
		}
		k := r.Pick(1, 1, 2, 5, 40, 254, 255, 256, 257, 300)
		if r.Intn(100) == 0 {
			// (the hyper verifier computes 256-uint16(len(path)): anything above 256 entries wraps the same
			// way, so there is no need for 65536-entry answers, which cost seconds of map building each)
			k = r.Pick(1000, 4096, 5000)
		}
		for j := 0; j < k; j++ {
			key := goodHistoryKey(r)
			if hyper {
				key = goodHyperKey(r)
			}
			(*m)[key] = r.Bytes(32)
		}
		return fmt.Sprintf("%s: add %d well-formed entries (now %d)", name, k, len(*m))
	case 2: // add a malformed key
		if *m == nil {
			*m = map[string]hashing.Digest{}
		}
		k := badKey(r, hyper)
		(*m)[k] = r.Bytes(32)
		return fmt.Sprintf("%s: add malformed key %.40q", name, k)
	case 3: // rename a needed key into a malformed one
		if len(ks) == 0 {
			return ""
		}
		old := ks[r.Intn(len(ks))]
		k := badKey(r, hyper)
		if r.Intn(3) == 0 {
			k = strings.Replace(old, "|", []string{"", "||", ":", "| ", " |", "|-", "|+"}[r.Intn(7)], 1)
		}
		(*m)[k] = (*m)[old]
		delete(*m, old)
		return fmt.Sprintf("%s: rename %s -> %.40q", name, old, k)
	case 4: // rename into a neighbour
		if len(ks) == 0 {
			return ""
		}
		old := ks[r.Intn(len(ks))]
		k := neighbourKey(r, old)
		v := (*m)[old]
		delete(*m, old)
		(*m)[k] = v
		return fmt.Sprintf("%s: rename %s -> %s", name, old, k)
	case 5: // digest length of one value
		if len(ks) == 0 {
			return ""
		}
		k := ks[r.Intn(len(ks))]
		n := digestLen(r)
		if r.Intn(8) == 0 {
			(*m)[k] = nil
			return fmt.Sprintf("%s[%s]: null digest", name, k)
		}
		(*m)[k] = r.Bytes(n)
		return fmt.Sprintf("%s[%s]: digest of %d bytes", name, k, n)
	case 6: // digest length of every value
		if len(ks) == 0 {
			return ""
		}
		n := digestLen(r)
		if len(ks) > 32 && r.Intn(8) != 0 { // keep most multi-hundred-entry answers below ~100 KB
			n = r.Intn(70)
		}
		for _, k := range ks {
			(*m)[k] = r.Bytes(n)
		}
		return fmt.Sprintf("%s: every digest %d bytes", name, n)
	case 7: // nil / empty map
		if r.Bool() {
			*m = nil
			return name + ": null"
		}
		*m = map[string]hashing.Digest{}
		return name + ": empty"
	default: // keep only one entry
		if len(ks) < 2 {
			return ""
		}
		keep := ks[r.Intn(len(ks))]
		v := (*m)[keep]
		*m = map[string]hashing.Digest{keep: v}
		return fmt.Sprintf("%s: only %s kept", name, keep)
	}
}

func hostileVersion(r *lib.Rand, orig ...uint64) uint64 {
	o := orig[r.Intn(len(orig))]
	switch r.Intn(14) {
	case 0:
		return 0
	case 1:
		return 1
	case 2:
		return o + 1
	case 3:
		return o - 1
	case 4:
		return 1<<63 - 1
	case 5:
		return 1 << 63
	case 6:
		return 1<<64 - 1
	case 7:
		return 1<<64 - 2
	case 8:
		return o
	case 9:
		return uint64(1) << uint(r.Intn(64))
	case 10:
		return uint64(1)<<uint(r.Intn(64)) - 1
	case 11:
		return r.Uint64()
	case 12:
		return o * 2
	}
	return uint64(r.Intn(400))
}

func genStructM(r *lib.Rand, cp *corpus, it *gItem, thorough bool) (body []byte, gen, desc string) {
	var mr protocol.MembershipResult
	if err := json.Unmarshal(it.Body, &mr); err != nil {
		return it.Body, "untouched", "genuine (undecodable?)"
	}
	mr.Hyper, mr.History = cloneMap(mr.Hyper), cloneMap(mr.History)
	nmut := 1
	if r.Intn(4) == 0 {
		nmut = r.Range(2, 4)
	}
	var descs []string
	classes := map[string]bool{}
	for tries := 0; len(descs) < nmut && tries < 20; tries++ {
		var d, cl string
		switch r.Intn(12) {
		case 0, 1, 2:
			cl = "struct/history-path"
			d = mutPath(r, "History", &mr.History, false, thorough)
		case 3, 4:
			cl = "struct/hyper-path"
			d = mutPath(r, "Hyper", &mr.Hyper, true, thorough)
		case 5, 6:
			cl = "struct/version-triple"
			cur, q, a := mr.CurrentVersion, mr.QueryVersion, mr.ActualVersion
			switch r.Intn(6) {
			case 0:
				mr.CurrentVersion = hostileVersion(r, cur, q, a)
			case 1:
				mr.QueryVersion = hostileVersion(r, cur, q, a)
			case 2:
				mr.ActualVersion = hostileVersion(r, cur, q, a)
			case 3: // swap
				mr.QueryVersion, mr.ActualVersion = a, q
				if a == q {
					mr.ActualVersion = q + 1
				}
			case 4: // all three
				mr.CurrentVersion, mr.QueryVersion, mr.ActualVersion = hostileVersion(r, cur, q, a), hostileVersion(r, cur, q, a), hostileVersion(r, cur, q, a)
			case 5: // consistent shift (another tree shape with the same path)
				dlt := hostileVersion(r, cur, q, a)
				mr.QueryVersion, mr.ActualVersion = q+dlt, a+dlt
			}
			d = fmt.Sprintf("versions current=%d query=%d actual=%d (were %d/%d/%d)", mr.CurrentVersion, mr.QueryVersion, mr.ActualVersion, cur, q, a)
		case 7:
			cl = "struct/digest-length"
			n := digestLen(r)
			if r.Intn(6) == 0 {
				mr.KeyDigest = nil
				d = "KeyDigest: null"
			} else {
				mr.KeyDigest = r.Bytes(n)
				d = fmt.Sprintf("KeyDigest: %d bytes", n)
			}
		case 8:
			cl = "struct/exists-flip"
			mr.Exists = !mr.Exists
			d = fmt.Sprintf("Exists := %v", mr.Exists)
		case 9:
			cl = "struct/cross-answer"
			o := &cp.Items[cp.m[r.Intn(len(cp.m))]]
			var om protocol.MembershipResult
			json.Unmarshal(o.Body, &om)
			switch r.Intn(4) {
			case 0:
				mr.History = cloneMap(om.History)
				d = "History of another answer (" + o.Shape + ")"
			case 1:
				mr.Hyper = cloneMap(om.Hyper)
				d = "Hyper of another answer (" + o.Shape + ")"
			case 2:
				mr.KeyDigest = om.KeyDigest
				d = "KeyDigest of another answer"
			case 3:
				mr.History, mr.Hyper = cloneMap(mr.Hyper), cloneMap(mr.History)
				d = "Hyper and History swapped"
			}
		case 10:
			cl = "struct/key-field"
			mr.Key = r.Bytes(r.Pick(0, 1, 32, 4096))
			d = fmt.Sprintf("Key: %d bytes", len(mr.Key))
		default:
			cl = "struct/absent-parts"
			switch r.Intn(4) {
			case 0:
				mr.Hyper, mr.History = nil, nil
				d = "Hyper and History null"
			case 1:
				mr = protocol.MembershipResult{Exists: mr.Exists, CurrentVersion: mr.CurrentVersion, QueryVersion: mr.QueryVersion, ActualVersion: mr.ActualVersion}
				d = "only versions and Exists"
			case 2:
				mr.Hyper = map[string]hashing.Digest{}
				d = "Hyper empty"
			case 3:
				mr.History = nil
				mr.Exists = true
				d = "History null, Exists true"
			}
		}
		if d == "" {
			continue
		}
		descs = append(descs, d)
		classes[cl] = true
		gen = cl
	}
	if len(descs) == 0 {
		return it.Body, "untouched", "genuine answer (no applicable mutation)"
	}
	if len(classes) > 1 || len(descs) > 1 {
		gen = "struct/compound"
	}
	body, err := json.Marshal(&mr)
	if err != nil || len(body) > maxBodyBytes {
		return it.Body, "untouched", "genuine answer (mutation not serialisable)"
	}
	return body, gen, strings.Join(descs, " + ")
}

func genStructI(r *lib.Rand, cp *corpus, it *gItem, thorough bool) (body []byte, gen, desc string) {
	var ir protocol.IncrementalResponse
	if err := json.Unmarshal(it.Body, &ir); err != nil {
		return it.Body, "untouched", "genuine (undecodable?)"
	}
	ir.AuditPath = cloneMap(ir.AuditPath)
	nmut := 1
	if r.Intn(4) == 0 {
		nmut = r.Range(2, 3)
	}
	var descs []string
	classes := map[string]bool{}
	for tries := 0; len(descs) < nmut && tries < 20; tries++ {
		var d, cl string
		switch r.Intn(8) {
		case 0, 1, 2, 3:
			cl = "struct/audit-path"
			d = mutPath(r, "AuditPath", &ir.AuditPath, false, thorough)
		case 4, 5, 6:
			cl = "struct/start-end"
			s, e := ir.Start, ir.End
			switch r.Intn(6) {
			case 0:
				ir.Start = hostileVersion(r, s, e)
			case 1:
				ir.End = hostileVersion(r, s, e)
			case 2:
				ir.Start, ir.End = e, s
				if s == e {
					ir.Start = e + 1
				}
			case 3:
				ir.Start, ir.End = hostileVersion(r, s, e), hostileVersion(r, s, e)
			case 4:
				ir.Start = ir.End
			case 5:
				ir.Start = ir.End + 1
			}
			d = fmt.Sprintf("Start=%d End=%d (were %d/%d)", ir.Start, ir.End, s, e)
		default:
			cl = "struct/cross-answer"
			o := &cp.Items[cp.i[r.Intn(len(cp.i))]]
			var oi protocol.IncrementalResponse
			json.Unmarshal(o.Body, &oi)
			ir.AuditPath = cloneMap(oi.AuditPath)
			d = "AuditPath of another answer (" + o.Shape + ")"
		}
		if d == "" {
			continue
		}
		descs = append(descs, d)
		classes[cl] = true
		gen = cl
	}
	if len(descs) == 0 {
		return it.Body, "untouched", "genuine answer (no applicable mutation)"
	}
	if len(classes) > 1 || len(descs) > 1 {
		gen = "struct/compound"
	}
	body, err := json.Marshal(&ir)
	if err != nil || len(body) > maxBodyBytes {
		return it.Body, "untouched", "genuine answer (mutation not serialisable)"
	}
	return body, gen, strings.Join(descs, " + ")
}

// ----- snapshot-store replies -----

func genSnapshotReply(r *lib.Rand, snap protocol.Snapshot) (body []byte, status int, gen, desc string) {
	status = 200
	genuine, _ := json.Marshal(&protocol.SignedSnapshot{Snapshot: &snap, Signature: []byte("signature")})
	switch r.Intn(12) {
	case 0:
		bodies := []string{`null`, `{}`, `{"Snapshot":null}`, `{"Signature":"AA=="}`, `{"Snapshot":null,"Signature":null}`, `{"snapshot":null}`}
		b := bodies[r.Intn(len(bodies))]
		return []byte(b), status, "no-snapshot", b
	case 1:
		bodies := []string{``, ` `, `[]`, `""`, `0`, `true`, `xx`, `{`, `{"Snapshot":`, `{"Snapshot":{`, `<html>not found</html>`, `nul`, `[null]`, `{"Snapshot":[]}`, `{"Snapshot":"x"}`, `{"Snapshot":5}`, "\xff\xfe"}
		b := bodies[r.Intn(len(bodies))]
		return []byte(b), status, "garbage", fmt.Sprintf("%q", b)
	case 2:
		n := r.Intn(len(genuine) + 1)
		return append([]byte{}, genuine[:n]...), status, "truncate", fmt.Sprintf("cut at %d of %d", n, len(genuine))
	case 3:
		st := r.Pick(404, 500, 204, 400, 201, 503)
		b := [][]byte{genuine, []byte(`null`), []byte(`not found`), nil, []byte(`{}`)}[r.Intn(5)]
		return b, st, "status", fmt.Sprintf("status %d body %.20q", st, b)
	case 4, 5: // type confusion inside Snapshot
		fs := parseObj(genuine)
		for i := range fs {
			if fs[i].k == "Snapshot" {
				in := parseObj(fs[i].v)
				k := r.Intn(len(in))
				v, d := confusion(r)
				in[k].v = []byte(v)
				fs[i].v = emitObj(in)
				return emitObj(fs), status, "type-confusion", fmt.Sprintf("Snapshot.%s := %s", in[k].k, d)
			}
		}
	case 6: // type confusion at top level
		fs := parseObj(genuine)
		k := r.Intn(len(fs))
		v, d := confusion(r)
		fs[k].v = []byte(v)
		return emitObj(fs), status, "type-confusion", fmt.Sprintf("%s := %s", fs[k].k, d)
	case 7, 8: // digest lengths
		s := snap
		n := digestLen(r)
		which := r.Intn(4)
		switch which {
		case 0:
			s.HistoryDigest = r.Bytes(n)
		case 1:
			s.HyperDigest = r.Bytes(n)
		case 2:
			s.EventDigest = r.Bytes(n)
		case 3:
			s.HistoryDigest, s.HyperDigest, s.EventDigest = nil, nil, nil
			n = 0
		}
		b, _ := json.Marshal(&protocol.SignedSnapshot{Snapshot: &s, Signature: r.Bytes(r.Pick(0, 64, 4096))})
		return b, status, "digest-length", fmt.Sprintf("digest field %d := %d bytes", which, n)
	case 9: // another version / wrong digests
		s := snap
		s.Version = hostileVersion(r, snap.Version)
		if r.Bool() {
			s.HistoryDigest, s.HyperDigest = r.Bytes(32), r.Bytes(32)
		}
		b, _ := json.Marshal(&protocol.SignedSnapshot{Snapshot: &s})
		return b, status, "other-snapshot", fmt.Sprintf("version %d", s.Version)
	case 10: // random edits
		b := append([]byte{}, genuine...)
		p := r.Intn(len(b))
		b[p] = []byte(`{}[]":,0`)[r.Intn(8)]
		return b, status, "random-edit", fmt.Sprintf("byte %d", p)
	}
	n := r.Pick(100, 10001)
	return []byte(deep("[", "]", n)), status, "deep-nesting", fmt.Sprintf("depth %d", n)
}

// ---------- canonical hostile inputs: run first, in every tier and for every seed, against every
// applicable entry point, so the set of reachable panic sites does not depend on the random draw ----------

type canon struct {
	target string
	name   string
}

var canonAnswersM = []string{"untouched", "history-entry-missing", "hyper-entry-missing", "history-key-without-separator", "history-empty-key",
	"null-body", "empty-body", "invalid-json", "empty-object", "hyper-empty", "all-paths-null", "exists-true-no-history", "versions-max",
	"query-below-actual", "keydigest-4096", "history-257-extra", "hyper-300-entries", "array-body", "history-wrong-type"}
var canonAnswersI = []string{"untouched", "path-entry-missing", "path-empty", "path-null", "key-without-separator", "empty-key", "null-body", "empty-body",
	"invalid-json", "empty-object", "start-after-end", "end-max", "start-end-max", "array-body", "path-wrong-type", "digest-4096"}
var canonStores = []string{"store-null", "store-empty-object", "store-snapshot-null", "store-garbage", "store-empty-body", "store-404", "store-500", "store-second-null",
	"store-second-garbage", "store-digest-4096", "store-array", "store-truncated"}

var canonTable = func() []canon {
	var t []canon
	for _, tg := range []string{tDirectM, tCliM, tCliMD, tCliMAuto} {
		for _, n := range canonAnswersM {
			t = append(t, canon{tg, n})
		}
	}
	for _, tg := range []string{tDirectI, tCliI, tCliIAuto} {
		for _, n := range canonAnswersI {
			t = append(t, canon{tg, n})
		}
	}
	for _, tg := range []string{tCliMAuto, tCliIAuto, tCliSnap, tStoreSnap} {
		for _, n := range canonStores {
			t = append(t, canon{tg, n})
		}
	}
	return t
}()

func canonCase(cp *corpus, idx int) *hcase {
	cn := canonTable[idx]
	hc := &hcase{ID: fmt.Sprint(idx), Idx: idx, Status: 200, Target: cn.target, Gen: "canonical/" + cn.name, Desc: cn.name,
		Store: []storeReply{{Genuine: true, Status: 200}}, StoreDesc: "genuine"}
	// genuine item: a member whose history path is non-trivial / an incremental answer with a long path
	pickM := func() int {
		best := cp.m[0]
		for _, k := range cp.m {
			var mr protocol.MembershipResult
			json.Unmarshal(cp.Items[k].Body, &mr)
			if cp.Items[k].Member && len(mr.History) >= 3 && mr.QueryVersion <= mr.CurrentVersion && cp.Items[k].Event != nil {
				return k
			}
		}
		return best
	}
	pickI := func() int {
		best, bl := cp.i[0], -1
		for _, k := range cp.i {
			var ir protocol.IncrementalResponse
			json.Unmarshal(cp.Items[k].Body, &ir)
			if len(ir.AuditPath) > bl {
				best, bl = k, len(ir.AuditPath)
			}
		}
		return best
	}
	first := func(m map[string]hashing.Digest) string {
		ks := sortedKeys(m)
		if len(ks) == 0 {
			return ""
		}
		return ks[len(ks)/2]
	}
	marshal := func(v interface{}) []byte { b, _ := json.Marshal(v); return b }

	if strings.HasPrefix(cn.name, "store-") {
		if isIncrementalTarget(cn.target) {
			hc.Item = pickI()
		} else {
			hc.Item = pickM()
		}
		it := &cp.Items[hc.Item]
		hc.Body = it.Body
		if cn.target == tCliSnap || cn.target == tStoreSnap {
			hc.Body = nil
		}
		gen, _ := json.Marshal(&protocol.SignedSnapshot{Snapshot: &it.SnapH, Signature: []byte("sig")})
		hostile := storeReply{Status: 200}
		switch cn.name {
		case "store-null", "store-second-null":
			hostile.Body = []byte(`null`)
		case "store-empty-object":
			hostile.Body = []byte(`{}`)
		case "store-snapshot-null":
			hostile.Body = []byte(`{"Snapshot":null,"Signature":"c2ln"}`)
		case "store-garbage", "store-second-garbage":
			hostile.Body = []byte(`<html>oops</html>`)
		case "store-empty-body":
			hostile.Body = []byte{}
		case "store-404":
			hostile.Body, hostile.Status = []byte(`not found`), 404
		case "store-500":
			hostile.Body, hostile.Status = []byte(`null`), 500
		case "store-digest-4096":
			s := it.SnapH
			s.HistoryDigest, s.HyperDigest = make([]byte, 4096), make([]byte, 4096)
			hostile.Body = marshal(&protocol.SignedSnapshot{Snapshot: &s})
		case "store-array":
			hostile.Body = []byte(`[]`)
		case "store-truncated":
			hostile.Body = gen[:len(gen)/2]
		}
		if strings.HasPrefix(cn.name, "store-second-") {
			hc.Store = []storeReply{{Genuine: true, Status: 200}, hostile}
		} else {
			hc.Store = []storeReply{hostile}
		}
		hc.StoreDesc = cn.name
		return hc
	}

	if isMembershipTarget(cn.target) {
		hc.Item = pickM()
		it := &cp.Items[hc.Item]
		var mr protocol.MembershipResult
		json.Unmarshal(it.Body, &mr)
		mr.Hyper, mr.History = cloneMap(mr.Hyper), cloneMap(mr.History)
		switch cn.name {
		case "untouched":
			hc.Body, hc.Untouched = it.Body, true
		case "history-entry-missing":
			delete(mr.History, first(mr.History))
			hc.Body = marshal(&mr)
		case "hyper-entry-missing":
			delete(mr.Hyper, first(mr.Hyper))
			hc.Body = marshal(&mr)
		case "history-key-without-separator":
			k := first(mr.History)
			mr.History[strings.Replace(k, "|", "", 1)] = mr.History[k]
			delete(mr.History, k)
			hc.Body = marshal(&mr)
		case "history-empty-key":
			mr.History[""] = r32()
			hc.Body = marshal(&mr)
		case "null-body":
			hc.Body = []byte(`null`)
		case "empty-body":
			hc.Body = []byte{}
		case "invalid-json":
			hc.Body = it.Body[:len(it.Body)/2]
		case "empty-object":
			hc.Body = []byte(`{}`)
		case "hyper-empty":
			mr.Hyper = map[string]hashing.Digest{}
			hc.Body = marshal(&mr)
		case "all-paths-null":
			mr.Hyper, mr.History = nil, nil
			hc.Body = marshal(&mr)
		case "exists-true-no-history":
			mr.History, mr.Exists = nil, true
			hc.Body = marshal(&mr)
		case "versions-max":
			mr.CurrentVersion, mr.QueryVersion, mr.ActualVersion = 1<<64-1, 1<<64-1, 1<<64-1
			hc.Body = marshal(&mr)
		case "query-below-actual":
			mr.QueryVersion, mr.ActualVersion = 0, mr.ActualVersion+1
			hc.Body = marshal(&mr)
		case "keydigest-4096":
			mr.KeyDigest = make([]byte, 4096)
			hc.Body = marshal(&mr)
		case "history-257-extra":
			for j := 0; j < 257; j++ {
				mr.History[fmt.Sprintf("%d|0", 1000+j)] = r32()
			}
			hc.Body = marshal(&mr)
		case "hyper-300-entries":
			for j := 0; j < 300; j++ {
				mr.Hyper[fmt.Sprintf("0x%064x|%d", j, 0)] = r32()
			}
			hc.Body = marshal(&mr)
		case "array-body":
			hc.Body = []byte(`[]`)
		case "history-wrong-type":
			hc.Body = []byte(`{"Exists":true,"History":[1,2],"Hyper":{}}`)
		}
		return hc
	}
	hc.Item = pickI()
	it := &cp.Items[hc.Item]
	var ir protocol.IncrementalResponse
	json.Unmarshal(it.Body, &ir)
	ir.AuditPath = cloneMap(ir.AuditPath)
	switch cn.name {
	case "untouched":
		hc.Body, hc.Untouched = it.Body, true
	case "path-entry-missing":
		delete(ir.AuditPath, first(ir.AuditPath))
		hc.Body = marshal(&ir)
	case "path-empty":
		ir.AuditPath = map[string]hashing.Digest{}
		hc.Body = marshal(&ir)
	case "path-null":
		ir.AuditPath = nil
		hc.Body = marshal(&ir)
	case "key-without-separator":
		k := first(ir.AuditPath)
		ir.AuditPath[strings.Replace(k, "|", "", 1)] = ir.AuditPath[k]
		delete(ir.AuditPath, k)
		hc.Body = marshal(&ir)
	case "empty-key":
		ir.AuditPath[""] = r32()
		hc.Body = marshal(&ir)
	case "null-body":
		hc.Body = []byte(`null`)
	case "empty-body":
		hc.Body = []byte{}
	case "invalid-json":
		hc.Body = it.Body[:len(it.Body)/2]
	case "empty-object":
		hc.Body = []byte(`{}`)
	case "start-after-end":
		ir.Start, ir.End = ir.End+1, ir.Start
		hc.Body = marshal(&ir)
	case "end-max":
		ir.End = 1<<64 - 1
		hc.Body = marshal(&ir)
	case "start-end-max":
		ir.Start, ir.End = 1<<64-1, 1<<64-1
		hc.Body = marshal(&ir)
	case "array-body":
		hc.Body = []byte(`[]`)
	case "path-wrong-type":
		hc.Body = []byte(`{"Start":1,"End":2,"AuditPath":[1,2]}`)
	case "digest-4096":
		for k := range ir.AuditPath {
			ir.AuditPath[k] = make([]byte, 4096)
		}
		hc.Body = marshal(&ir)
	}
	return hc
}

func r32() hashing.Digest {
	b := make([]byte, 32)
	for i := range b {
		b[i] = byte(i*7 + 1)
	}
	return b
}
