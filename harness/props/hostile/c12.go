// C12 — the client verifier is total: decoding + converting + verifying any server answer returns
// (false | error | true), never panics, loops or exhausts memory.
//
// Execution model: the parent builds genuine answers from a real balloon, writes them to a corpus
// file and fans the case index space out to child processes (c12-batch). A child runs its cases
// sequentially, each entry point under recover (panic => classified by entry point + innermost QED
// frame), measures the bytes allocated per entry point, lives under an address-space limit and an
// internal per-case watchdog; its progress record (mmap'ed) tells the parent which case/stage was
// running if the process dies. A case that hung or killed its child is re-run alone (c12-case) under
// the same limits and a hard timeout.
package hostile

import (
	"bytes"
	"encoding/binary"
	"encoding/json"
	"fmt"
	"io/ioutil"
	"os"
	"os/exec"
	"path/filepath"
	"runtime"
	"sort"
	"strings"
	"sync"
	"syscall"
	"time"

	"github.com/bbva/qed/balloon"
	"github.com/bbva/qed/crypto/hashing"
	"github.com/bbva/qed/protocol"

	"qedverif/lib"
)

func init() {
	Workers["c12-batch"] = batchWorker
	Workers["c12-case"] = batchWorker // same code, spawned for one case without the inner watchdog
}

const (
	singleCaseTimeout = 180 * time.Second
	singleCaseCPU     = 60 * time.Second // processor time; normal cases need milliseconds
	batchTimeout      = 15 * time.Minute
)

type c12job struct{ from, to int }

type c12run struct {
	c        *lib.Ctx
	cp       *corpus
	dir      string
	corpusF  string
	thorough string
	bin      string
	cmdLog   *os.File
	mu       sync.Mutex
	queue    []c12job
	active   int
	cond     *sync.Cond
	seq      int
	maxAlloc uint64
	maxAt    string
	maxBody  int
	samples  int
	slowMs   int64
	slowAt   string
	// process-killing / non-returning cases cost minutes each: after a few confirmed ones the verdict is
	// settled (violated) and the rest of the run is abandoned
	confirmedDeaths int
	confirmedKeys   map[string]bool
	abort           bool
}

type c12detail struct {
	ID      string      `json:"id"`
	Stage   string      `json:"entry_point"`
	Site    string      `json:"panic_site,omitempty"`
	Panic   string      `json:"panic,omitempty"`
	Frames  []string    `json:"qed_frames,omitempty"`
	Case    interface{} `json:"case"`
	Stderr  string      `json:"child_stderr_tail,omitempty"`
	Alloc   uint64      `json:"alloc_bytes,omitempty"`
	Comment string      `json:"comment,omitempty"`
}

func RunC12(c *lib.Ctx) {
	c.Rule = "case i = f(seed, i): (entry point, genuine answer from a real balloon, generator) -> answer bytes (+ scripted snapshot-store replies); " +
		"generators: byte-level over the JSON text (truncation, type confusion per field and per path entry, whole-body replacements, deep nesting, huge numbers, duplicate / case-variant keys, invalid base64, random edits, absent / extra fields) " +
		"and structure-level mutations of the decoded genuine answer (drop/add/rename audit-path keys incl. malformed keys, version triple, digest lengths 0..4096, nil/empty parts, Exists flip, Start/End, cross-answer splices, compounds); " +
		"the first cases are a fixed table of canonical hostile inputs x entry points. Non-trivial = anything but an untouched genuine answer; distinct by (entry point, generator class, outcome)."
	c.Assume = []string{
		"Go's encoding/json is the decoder of record (the client uses it); answers it rejects count as 'decoder-rejected'/'error'",
		"the verifier's own inputs (its digest/event, the snapshots it passes to *Verify) are well-formed; only server / snapshot-store bytes are hostile",
		"answers above 8 MiB are a transport limit, not generated",
		"'loops' = a single case, alone in a child, consuming 60 s of CPU time (or 180 s of wall time) without returning (normal cases take about 1 ms); 'exhausts memory' = > 256 MiB allocated by one entry point for one answer, or death under a 4 GiB address-space limit",
		"`true` results are not judged here (soundness is C02)",
	}
	run := &c12run{c: c, thorough: "0", confirmedKeys: map[string]bool{}}
	run.cond = sync.NewCond(&run.mu)
	if c.Thorough() {
		run.thorough = "1"
	}
	run.bin = os.Getenv("QV_BIN")
	if run.bin == "" {
		run.bin, _ = os.Executable()
	}

	var cp *corpus
	var err error
	if p, msg := lib.Recover(func() { cp, err = buildCorpus(c) }); p || err != nil {
		c.Inconclusive(fmt.Sprintf("C12: cannot build genuine answers from the balloon: %v %s", err, msg))
		return
	}
	run.cp = cp
	run.dir = c.Dir("c12")
	run.corpusF = filepath.Join(run.dir, "corpus.json")
	buf, _ := json.Marshal(cp)
	if err := ioutil.WriteFile(run.corpusF, buf, 0644); err != nil {
		c.Inconclusive("C12: cannot write corpus: " + err.Error())
		return
	}
	run.cmdLog, _ = os.Create(filepath.Join(run.dir, "commands.log"))
	defer run.cmdLog.Close()
	run.checkGenuine()

	if c.Only != "" {
		var idx int
		if _, err := fmt.Sscan(c.Only, &idx); err != nil {
			c.Inconclusive("C12: bad case id " + c.Only)
			return
		}
		run.single(idx, "replay")
		return
	}

	n := c.Q(30000, 1500000)
	chunk := c.Q(600, 10000)
	for from := 0; from < n; from += chunk {
		to := from + chunk
		if to > n {
			to = n
		}
		run.queue = append(run.queue, c12job{from, to})
	}
	workers := runtime.NumCPU()
	if workers > 12 {
		workers = 12
	}
	if workers < 2 {
		workers = 2
	}
	var wg sync.WaitGroup
	for w := 0; w < workers; w++ {
		wg.Add(1)
		go func() {
			defer wg.Done()
			for {
				run.mu.Lock()
				for len(run.queue) == 0 && run.active > 0 {
					run.cond.Wait()
				}
				if len(run.queue) == 0 {
					run.mu.Unlock()
					run.cond.Broadcast()
					return
				}
				j := run.queue[0]
				run.queue = run.queue[1:]
				if run.abort {
					run.mu.Unlock()
					c.Count("cases_skipped_after_abort", int64(j.to-j.from))
					continue
				}
				run.active++
				run.mu.Unlock()
				run.batch(j)
				run.mu.Lock()
				run.active--
				run.mu.Unlock()
				run.cond.Broadcast()
			}
		}()
	}
	wg.Wait()
	c.Extra("max_alloc_one_entry_point", map[string]interface{}{"bytes": run.maxAlloc, "case/stage": run.maxAt, "answer_bytes": run.maxBody, "cap_bytes": allocCapBytes})
	c.Extra("canonical_cases", len(canonTable))
	c.Extra("slowest_case", map[string]interface{}{"ms": run.slowMs, "case": run.slowAt, "note": "wall time inside a child sharing the machine with 11 others; evidence only"})
	if run.abort {
		fmt.Printf("C12: run abandoned after %d confirmed process-killing / non-returning cases (verdict is settled)\n", run.confirmedDeaths)
	} else if c.Counter("cases_run") != int64(n) {
		c.Inconclusive(fmt.Sprintf("C12: %d of %d cases were evaluated", c.Counter("cases_run"), n))
	}
}

// checkGenuine verifies the untouched genuine answers in-process (they are well-formed, so this
// cannot trip the defects) to show that the corpus is real: the verifier accepts them.
func (run *c12run) checkGenuine() {
	c := run.c
	for _, it := range run.cp.Items {
		it := it
		ok := false
		p, _ := lib.Recover(func() {
			if it.Kind == "m" {
				var mr protocol.MembershipResult
				if json.Unmarshal(it.Body, &mr) != nil {
					return
				}
				snap := &balloon.Snapshot{HistoryDigest: it.SnapH.HistoryDigest, HyperDigest: it.SnapC.HyperDigest}
				ok = protocol.ToBalloonProof(&mr, hashing.NewSha256Hasher).DigestVerify(it.Digest, snap)
			} else {
				var ir protocol.IncrementalResponse
				if json.Unmarshal(it.Body, &ir) != nil {
					return
				}
				ok = protocol.ToIncrementalProof(&ir, hashing.NewSha256Hasher).Verify(bsnap(it.SnapH), bsnap(it.SnapC))
			}
		})
		kind := "membership"
		if it.Kind == "i" {
			kind = "incremental"
		}
		c.Count("genuine_answers_"+kind, 1)
		if ok && !p {
			c.Count("genuine_answers_"+kind+"_verify_true", 1)
		}
		c.Seen("genuine_answer_shapes", it.Shape)
	}
	if c.Counter("genuine_answers_membership_verify_true") == 0 || c.Counter("genuine_answers_incremental_verify_true") == 0 {
		c.Inconclusive("C12: no genuine answer verifies — the corpus is not genuine")
	}
}

type childOutcome struct {
	exit     int
	timedOut bool
	budget   string
	res      *batchResult
	progIdx  int
	progStg  string
	stderr   string
}

func (run *c12run) spawn(worker string, from, to int, watchdog bool, timeout, cpuBudget time.Duration) childOutcome {
	run.mu.Lock()
	run.seq++
	id := run.seq
	run.mu.Unlock()
	resF := filepath.Join(run.dir, fmt.Sprintf("res-%d.json", id))
	progF := filepath.Join(run.dir, fmt.Sprintf("prog-%d.bin", id))
	errF := filepath.Join(run.dir, fmt.Sprintf("stderr-%d.txt", id))
	wd := "0"
	if watchdog {
		wd = "1"
	}
	args := []string{"worker", worker, run.corpusF, fmt.Sprint(from), fmt.Sprint(to), run.thorough, resF, progF, wd}
	run.mu.Lock()
	fmt.Fprintf(run.cmdLog, "%s %s\n", run.bin, strings.Join(args, " "))
	run.mu.Unlock()
	cmd := exec.Command(run.bin, args...)
	ef, _ := os.Create(errF)
	cmd.Stderr = ef
	cmd.Stdout = ef
	cmd.Env = append(os.Environ(), "GOTRACEBACK=all", "GOMAXPROCS=2") // 12 children share the machine
	out := childOutcome{progIdx: -1}
	if err := cmd.Start(); err != nil {
		ef.Close()
		out.exit = -1
		out.stderr = err.Error()
		return out
	}
	done := make(chan error, 1)
	go func() { done <- cmd.Wait() }()
	select {
	case err := <-done:
		if err != nil {
			if ee, ok := err.(*exec.ExitError); ok {
				out.exit = ee.ExitCode()
				if ws, ok := ee.Sys().(syscall.WaitStatus); ok && ws.Signaled() {
					out.exit = 128 + int(ws.Signal())
				}
			} else {
				out.exit = -1
			}
		}
	case why := <-run.overBudget(cmd.Process.Pid, timeout, cpuBudget, done):
		out.budget = why
		cmd.Process.Signal(syscall.SIGQUIT) // stacks to stderr
		select {
		case <-done:
		case <-time.After(5 * time.Second):
			cmd.Process.Kill()
			<-done
		}
		out.timedOut = true
		out.exit = -2
	}
	ef.Close()
	if buf, err := ioutil.ReadFile(resF); err == nil {
		var br batchResult
		if json.Unmarshal(buf, &br) == nil {
			out.res = &br
		}
	}
	if buf, err := ioutil.ReadFile(progF); err == nil && len(buf) >= 16 {
		if v := binary.LittleEndian.Uint64(buf[0:8]); v < 1<<40 {
			out.progIdx = int(v)
		}
		if s := binary.LittleEndian.Uint64(buf[8:16]); s < uint64(len(stageNames)) {
			out.progStg = stageNames[s]
		}
	}
	if buf, err := ioutil.ReadFile(errF); err == nil {
		if len(buf) > 64<<10 {
			buf = append(buf[:32<<10:32<<10], buf[len(buf)-(32<<10):]...)
		}
		out.stderr = string(buf)
	}
	os.Remove(resF)
	os.Remove(progF)
	os.Remove(errF)
	return out
}

// overBudget fires when the child has been running for `wall`, or (cpu > 0) has consumed more than
// `cpu` of processor time (user+system, all threads; read from /proc): a verifier that loops burns
// CPU, so this bound does not depend on how loaded the machine is.
func (run *c12run) overBudget(pid int, wall, cpu time.Duration, done <-chan error) <-chan string {
	ch := make(chan string, 1)
	go func() {
		start := time.Now()
		for {
			time.Sleep(500 * time.Millisecond)
			if len(done) > 0 {
				return
			}
			if time.Since(start) > wall {
				ch <- fmt.Sprintf("still running after %v", wall)
				return
			}
			if cpu > 0 {
				if used, ok := procCPU(pid); ok && used > cpu {
					ch <- fmt.Sprintf("consumed %v of CPU without returning", used.Round(time.Second))
					return
				}
			}
		}
	}()
	return ch
}

func procCPU(pid int) (time.Duration, bool) {
	buf, err := ioutil.ReadFile(fmt.Sprintf("/proc/%d/stat", pid))
	if err != nil {
		return 0, false
	}
	s := string(buf)
	i := strings.LastIndex(s, ")") // comm may contain spaces
	if i < 0 {
		return 0, false
	}
	f := strings.Fields(s[i+1:])
	if len(f) < 13 {
		return 0, false
	}
	var ut, st int64
	fmt.Sscan(f[11], &ut)                                   // utime  (field 14)
	fmt.Sscan(f[12], &st)                                   // stime  (field 15)
	return time.Duration(ut+st) * (time.Second / 100), true // USER_HZ = 100 on linux
}

func (run *c12run) requeue(js ...c12job) {
	run.mu.Lock()
	for _, j := range js {
		if j.to > j.from {
			run.queue = append(run.queue, j)
		}
	}
	run.mu.Unlock()
	run.cond.Broadcast()
}

func (run *c12run) batch(j c12job) {
	c := run.c
	o := run.spawn("c12-batch", j.from, j.to, true, batchTimeout, 0)
	c.Count("child_batches", 1)
	switch {
	case o.exit == 0 && o.res != nil && o.res.Done == j.to-j.from:
		run.merge(o.res)
	case o.exit == exitHung && o.res != nil && o.res.HungCase >= j.from && o.res.HungCase < j.to:
		// cases before the hung one are in the result; the hung one is re-run alone
		run.merge(o.res)
		c.Count("watchdog_fired", 1)
		run.requeue(c12job{o.res.HungCase + 1, j.to})
		run.single(o.res.HungCase, "watchdog")
	case o.timedOut:
		c.Inconclusive(fmt.Sprintf("C12: child for cases [%d,%d) exceeded %v without its own watchdog firing", j.from, j.to, batchTimeout))
	default:
		// the process died (fatal error, out of memory, signal): nothing of this batch was reported
		c.Count("child_deaths", 1)
		if o.progIdx < j.from || o.progIdx >= j.to {
			c.Inconclusive(fmt.Sprintf("C12: child for cases [%d,%d) died (exit %d) outside any case: %s", j.from, j.to, o.exit, tail(o.stderr, 400)))
			return
		}
		run.requeue(c12job{j.from, o.progIdx}, c12job{o.progIdx + 1, j.to})
		run.single(o.progIdx, fmt.Sprintf("child died (exit %d) in %s", o.exit, o.progStg))
	}
}

// single re-runs one case alone in a fresh capped child with a hard timeout.
func (run *c12run) single(idx int, why string) {
	c := run.c
	hc := genCase(run.cp, idx, c.Thorough())
	run.mu.Lock()
	skip := run.abort
	run.mu.Unlock()
	if skip && why != "replay" {
		c.Count("suspect_cases_not_rerun_after_abort", 1)
		return
	}
	confirmed := func(key string) {
		run.mu.Lock()
		run.confirmedDeaths++
		run.confirmedKeys[key] = true
		if run.confirmedDeaths >= 3 {
			run.abort = true
		}
		run.mu.Unlock()
	}
	t0 := time.Now()
	o := run.spawn("c12-case", idx, idx+1, false, singleCaseTimeout, singleCaseCPU)
	c.Count("child_single_case_runs", 1)
	if why != "replay" {
		c.Seen("cases_rerun_alone", fmt.Sprintf("case %d (%s, %s: %s) because %s; alone: exit %d after %.1fs", idx, hc.Target, hc.Gen, oneLine(hc.Desc+" / "+hc.StoreDesc, 200), why, o.exit, time.Since(t0).Seconds()))
	}
	stage := o.progStg
	if stage == "" {
		stage = "none"
	}
	switch {
	case o.exit == 0 && o.res != nil && o.res.Done == 1:
		if why != "replay" {
			c.Count("single_case_rerun_returned", 1)
		}
		run.merge(o.res)
	case o.timedOut:
		c.Count("cases_run", 1)
		confirmed("C12:" + stage + ":no-return")
		c.Case(hc.Target+"|"+hc.Gen+"|no-return", true)
		c.Violation("C12:"+stage+":no-return",
			fmt.Sprintf("case %s (%s, %s: %s): %s does not return: alone in a child it %s (first seen: %s)", hc.ID, hc.Target, hc.Gen, hc.Desc, stage, o.budget, why),
			c12detail{ID: hc.ID, Stage: stage, Case: dump(run.cp, hc), Stderr: tail(o.stderr, 6000), Comment: "loops"})
	default:
		c.Count("cases_run", 1)
		kind, key := "fatal", ""
		switch {
		case strings.Contains(o.stderr, "out of memory") || strings.Contains(o.stderr, "cannot allocate memory"):
			kind, key = "exhausts memory", "C12:"+stage+":memory"
		default:
			site := fatalSite(o.stderr)
			key = "C12:" + stage + ":fatal:" + site
		}
		if o.progIdx != idx {
			c.Inconclusive(fmt.Sprintf("C12: single-case child for case %d died (exit %d) outside the case: %s", idx, o.exit, tail(o.stderr, 400)))
			return
		}
		confirmed(key)
		c.Case(hc.Target+"|"+hc.Gen+"|"+kind, true)
		c.Violation(key,
			fmt.Sprintf("case %s (%s, %s: %s): %s kills the process (%s, exit %d; unrecoverable): %s", hc.ID, hc.Target, hc.Gen, hc.Desc, stage, kind, o.exit, firstFatalLine(o.stderr)),
			c12detail{ID: hc.ID, Stage: stage, Case: dump(run.cp, hc), Stderr: tail(o.stderr, 6000), Comment: why})
	}
}

func fatalSite(stderr string) string {
	// goroutine traces list "pkg.func(args)" lines; take the first QED frame after the fatal line
	i := strings.Index(stderr, "fatal error")
	if i < 0 {
		i = strings.Index(stderr, "panic:")
	}
	if i < 0 {
		i = 0
	}
	return panicSite(stderr[i:])
}

func firstFatalLine(stderr string) string {
	for _, ln := range strings.Split(stderr, "\n") {
		if strings.HasPrefix(ln, "fatal error") || strings.HasPrefix(ln, "panic:") || strings.HasPrefix(ln, "runtime:") || strings.HasPrefix(ln, "signal") {
			return ln
		}
	}
	return tail(stderr, 200)
}

func tail(s string, n int) string {
	if len(s) > n { // the head names the fatal error, the tail the goroutines
		return s[:n/2] + " ... " + s[len(s)-n/2:]
	}
	return s
}

func (run *c12run) merge(br *batchResult) {
	c := run.c
	c.Count("cases_run", int64(br.Done))
	c.Count("http_requests_served", br.Requests)
	for k, v := range br.Counts {
		c.Count(k, v)
	}
	sigs := make([]string, 0, len(br.Sigs))
	for s := range br.Sigs {
		sigs = append(sigs, s)
	}
	sort.Strings(sigs)
	for _, s := range sigs {
		c.Case(s, true)
		c.Evals(int(br.Sigs[s]) - 1)
	}
	if br.Trivial > 0 {
		c.Case("untouched", false)
		c.Evals(int(br.Trivial) - 1)
	}
	keys := make([]string, 0, len(br.Panics))
	for k := range br.Panics {
		keys = append(keys, k)
	}
	sort.Strings(keys)
	for _, k := range keys {
		p := br.Panics[k]
		c.Seen("panic_sites", p.Site)
		c.Seen("panic_keys", k)
		c.Count("panics:"+k, p.Count)
		c.Violation(k,
			fmt.Sprintf("%s panics in %s on a hostile answer (case %s, %s: %s): %s", p.Stage, p.Site, p.First.ID, p.First.Gen, oneLine(p.First.Desc+" "+p.First.Store, 160), oneLine(p.Msg, 200)),
			c12detail{ID: p.First.ID, Stage: p.Stage, Site: p.Site, Panic: p.Msg, Frames: p.Frames, Case: p.First})
	}
	for _, m := range br.Mem {
		c.Violation(m.Key,
			fmt.Sprintf("%s allocated %d MiB for one answer of %d bytes (case %s, %s: %s)", m.Stage, m.Alloc>>20, m.Case.BodyLen, m.Case.ID, m.Case.Gen, oneLine(m.Case.Desc, 160)),
			c12detail{ID: m.Case.ID, Stage: m.Stage, Case: m.Case, Alloc: m.Alloc, Comment: "exhausts memory"})
	}
	run.mu.Lock()
	if br.SlowestMs > run.slowMs {
		run.slowMs, run.slowAt = br.SlowestMs, br.SlowestCase
	}
	if br.MaxAlloc > run.maxAlloc {
		run.maxAlloc, run.maxAt, run.maxBody = br.MaxAlloc, br.MaxAllocCase, br.MaxAllocBody
	}
	take := run.samples < 6
	if take {
		run.samples += len(br.Samples)
	}
	run.mu.Unlock()
	if take {
		for _, s := range br.Samples {
			c.Sample(s)
		}
	}
}

func oneLine(s string, n int) string {
	s = string(bytes.Map(func(r rune) rune {
		if r < 32 {
			return ' '
		}
		return r
	}, []byte(s)))
	if len(s) > n {
		s = s[:n] + "..."
	}
	return strings.TrimSpace(s)
}
