package hostile

import "qedverif/lib"

// Workers are child-process entry points (qv worker <name> args...).
var Workers = map[string]func(args []string) int{}

func RunC11(c *lib.Ctx) { c.Inconclusive("C11: check not built yet") }
