package hostile

import (
	"crypto/sha256"
	"encoding/json"
	"fmt"

	"github.com/bbva/qed/balloon"
	"github.com/bbva/qed/protocol"

	"qedverif/lib"
	"qedverif/props/tree"
)

// ---------- genuine answers (built once by the parent from a real balloon) ----------

// gItem is one genuine server answer together with what the verifier itself knows
// (its own digest / event and the snapshots it trusts).
type gItem struct {
	Kind    string            `json:"kind"` // "m" membership, "i" incremental
	Shape   string            `json:"shape"`
	Body    []byte            `json:"body"`    // genuine wire bytes
	Digest  []byte            `json:"digest"`  // verifier's digest (membership)
	Event   []byte            `json:"event"`   // verifier's event when known (sha256(Event) == Digest)
	Version uint64            `json:"version"` // verifier's query version (membership)
	SnapH   protocol.Snapshot `json:"snap_h"`  // membership: snapshot of min(query,current); incremental: start
	SnapC   protocol.Snapshot `json:"snap_c"`  // membership: snapshot of current version; incremental: end
	Start   uint64            `json:"start"`
	End     uint64            `json:"end"`
	Member  bool              `json:"member"`
}

type corpus struct {
	Seed  int64               `json:"seed"`
	N     int                 `json:"n"`
	Items []gItem             `json:"items"`
	Snaps []protocol.Snapshot `json:"snaps"` // by version
	m, i  []int               // indexes of membership / incremental items
}

func (cp *corpus) index() {
	cp.m, cp.i = nil, nil
	for k, it := range cp.Items {
		if it.Kind == "m" {
			cp.m = append(cp.m, k)
		} else {
			cp.i = append(cp.i, k)
		}
	}
}

// buildCorpus drives a real balloon (in-memory store) and records genuine answers. Everything
// is derived from the seed only (not from the tier), so case i means the same in both tiers.
func buildCorpus(c *lib.Ctx) (*corpus, error) {
	r := c.Rand("c12-corpus")
	l, err := tree.NewLog(tree.BPlus, "")
	if err != nil {
		return nil, err
	}
	defer l.Close()

	n := 96 + r.Intn(96)
	// half of the digests are sha256 of known events (so MembershipProof.Verify(event) can succeed),
	// the other half comes from the structured families (shared prefixes give deep hyper paths).
	events := map[string][]byte{}
	var digests [][]byte
	fam := tree.Families[r.Intn(len(tree.Families))]
	structured := tree.GenDigests(r, fam, n/2)
	seen := map[string]bool{}
	for _, d := range structured {
		seen[string(d)] = true
	}
	for k := 0; len(digests) < n; k++ {
		if k%2 == 0 && k/2 < len(structured) {
			digests = append(digests, structured[k/2])
			continue
		}
		ev := []byte(fmt.Sprintf("event-%d-%d-%x", c.Seed, k, r.Bytes(r.Range(0, 12))))
		d := sha256.Sum256(ev)
		if seen[string(d[:])] {
			continue
		}
		seen[string(d[:])] = true
		events[string(d[:])] = ev
		digests = append(digests, d[:])
	}
	digests = digests[:n]
	pos := 0
	for _, op := range tree.GenPartition(r, n, 3) {
		if _, err := l.Apply(digests[pos:pos+op.N], op.Bulk); err != nil {
			return nil, fmt.Errorf("corpus: apply: %v", err)
		}
		pos += op.N
	}
	cp := &corpus{Seed: c.Seed, N: n}
	for _, s := range l.Snaps {
		cp.Snaps = append(cp.Snaps, protocol.Snapshot(*s))
	}
	cur := uint64(n - 1)
	snapAt := func(v uint64) protocol.Snapshot {
		if v > cur {
			v = cur
		}
		return cp.Snaps[v]
	}

	addMember := func(d []byte, version uint64, member bool) error {
		proof, err := l.B.QueryDigestMembershipConsistency(d, version)
		if err != nil {
			return nil // e.g. actual version > query version: the server answers with an error, no proof
		}
		ev := events[string(d)]
		body, err := json.Marshal(protocol.ToMembershipResult(ev, proof))
		if err != nil {
			return err
		}
		it := gItem{Kind: "m", Body: body, Digest: d, Event: ev, Version: version, Member: member,
			SnapH: snapAt(version), SnapC: snapAt(cur),
			Shape: fmt.Sprintf("member=%v/actual=%d/query=%d/current=%d/hyper=%d/history=%d", member, proof.ActualVersion, version, cur,
				len(proof.HyperProof.AuditPath), histLen(proof))}
		cp.Items = append(cp.Items, it)
		return nil
	}
	// members at boundary and random versions
	vs := []uint64{0, 1, 2, 3, 4, 7, 8, 15, 16, 31, 32, 63, 64, 65, cur - 1, cur}
	for len(vs) < 34 {
		vs = append(vs, uint64(r.Intn(n)))
	}
	for _, v := range vs {
		if v > cur {
			continue
		}
		q := v
		switch r.Intn(4) {
		case 0:
			q = cur
		case 1:
			q = v + uint64(r.Intn(int(cur-v)+1))
		case 2:
			q = cur + uint64(r.Intn(3)) // beyond the current version (server clamps)
		}
		if err := addMember(digests[v], q, true); err != nil {
			return nil, err
		}
	}
	// non-members
	for k := 0; k < 6; k++ {
		d := r.Bytes(32)
		if k%2 == 0 { // near an existing digest
			d = append([]byte{}, digests[r.Intn(n)]...)
			d[31] ^= 1
			if seen[string(d)] {
				continue
			}
		}
		if err := addMember(d, uint64(r.Intn(n)), false); err != nil {
			return nil, err
		}
	}
	// incremental answers
	pairs := [][2]uint64{{0, 0}, {0, 1}, {0, cur}, {1, 2}, {cur, cur}, {cur - 1, cur}, {7, 8}, {8, 15}, {15, 16}, {31, 64}, {63, 64}, {2, 65}}
	for len(pairs) < 30 {
		a := uint64(r.Intn(n))
		b := a + uint64(r.Intn(n-int(a)))
		pairs = append(pairs, [2]uint64{a, b})
	}
	for _, p := range pairs {
		if p[1] > cur || p[0] > p[1] {
			continue
		}
		proof, err := l.B.QueryConsistency(p[0], p[1])
		if err != nil {
			return nil, fmt.Errorf("corpus: consistency %v: %v", p, err)
		}
		body, err := json.Marshal(protocol.ToIncrementalResponse(proof))
		if err != nil {
			return nil, err
		}
		cp.Items = append(cp.Items, gItem{Kind: "i", Body: body, Start: p[0], End: p[1], SnapH: cp.Snaps[p[0]], SnapC: cp.Snaps[p[1]],
			Shape: fmt.Sprintf("start=%d/end=%d/path=%d", p[0], p[1], len(proof.AuditPath))})
	}
	cp.index()
	if len(cp.m) < 10 || len(cp.i) < 10 {
		return nil, fmt.Errorf("corpus too small: %d membership, %d incremental", len(cp.m), len(cp.i))
	}
	return cp, nil
}

func histLen(p *balloon.MembershipProof) int {
	if p.HistoryProof == nil {
		return 0
	}
	return len(p.HistoryProof.AuditPath)
}
