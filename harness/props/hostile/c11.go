package hostile

import (
	"bufio"
	"bytes"
	"crypto/rand"
	"encoding/base64"
	"encoding/json"
	"fmt"
	"io"
	"io/ioutil"
	"net"
	"net/http"
	"os"
	"os/exec"
	"os/signal"
	"path/filepath"
	"strconv"
	"strings"
	"sync"
	"sync/atomic"
	"syscall"
	"time"

	"golang.org/x/crypto/ed25519"

	"github.com/bbva/qed/balloon"
	"github.com/bbva/qed/crypto/hashing"
	"github.com/bbva/qed/protocol"
	"github.com/bbva/qed/server"

	"qedverif/lib"
)

func init() {
	Workers["c11-server"] = c11ServerWorker
}

// c11ServerWorker: args dir basePort [joinRaftAddr]. Runs a real server.Server until SIGTERM.
func c11ServerWorker(args []string) int {
	dir := args[0]
	base, _ := strconv.Atoi(args[1])
	os.MkdirAll(dir, 0755)
	key := filepath.Join(dir, "key")
	if _, err := os.Stat(key); err != nil {
		pub, priv, _ := ed25519.GenerateKey(rand.Reader)
		ioutil.WriteFile(key, priv, 0600)
		ioutil.WriteFile(key+".pub", pub, 0644)
	}
	conf := server.DefaultConfig()
	conf.NodeID = filepath.Base(dir)
	conf.HTTPAddr = fmt.Sprintf("127.0.0.1:%d", base)
	conf.RaftAddr = fmt.Sprintf("127.0.0.1:%d", base+1)
	conf.MgmtAddr = fmt.Sprintf("127.0.0.1:%d", base+2)
	conf.MetricsAddr = fmt.Sprintf("127.0.0.1:%d", base+3)
	conf.GossipAddr = fmt.Sprintf("127.0.0.1:%d", base+4)
	conf.DBPath = filepath.Join(dir, "db")
	conf.RaftPath = filepath.Join(dir, "raft")
	conf.PrivateKeyPath = key
	conf.RaftHeartbeatTimeout = 300 * time.Millisecond
	conf.RaftElectionTimeout = 300 * time.Millisecond
	conf.RaftLeaseTimeout = 300 * time.Millisecond
	if len(args) > 2 && args[2] != "" {
		conf.RaftJoinAddr = []string{args[2]}
	}
	srv, err := server.NewServer(conf)
	if err != nil {
		fmt.Println("C11-SERVER-ERROR new:", err)
		return 4
	}
	if err := srv.Start(); err != nil {
		fmt.Println("C11-SERVER-ERROR start:", err)
		return 4
	}
	fmt.Println("C11-SERVER-READY")
	ch := make(chan os.Signal, 1)
	signal.Notify(ch, syscall.SIGTERM, syscall.SIGINT)
	<-ch
	if err := srv.Stop(); err != nil {
		fmt.Println("C11-SERVER-STOP-ERROR", err)
		return 6
	}
	fmt.Println("C11-SERVER-STOPPED")
	return 0
}

// ---------- server child management ----------

type srvProc struct {
	dir   string
	base  int
	join  string
	cmd   *exec.Cmd
	outp  string
	done  chan error
	exitd bool
}

func (p *srvProc) api() string  { return fmt.Sprintf("127.0.0.1:%d", p.base) }
func (p *srvProc) mgmt() string { return fmt.Sprintf("127.0.0.1:%d", p.base+2) }
func (p *srvProc) raft() string { return fmt.Sprintf("127.0.0.1:%d", p.base+1) }

var portMu sync.Mutex
var portNext = 0

func freeBase() int {
	portMu.Lock()
	defer portMu.Unlock()
	for tries := 0; tries < 500; tries++ {
		b := 24000 + (os.Getpid()%300)*60 + (portNext%10)*6
		portNext++
		ok := true
		for o := 0; o < 5; o++ {
			l, err := net.Listen("tcp", fmt.Sprintf("127.0.0.1:%d", b+o))
			if err != nil {
				ok = false
				break
			}
			l.Close()
		}
		if ok {
			return b
		}
	}
	return 0
}

func startServer(dir string, base int, join string, tag string) (*srvProc, error) {
	bin := os.Getenv("QV_BIN")
	if bin == "" {
		bin, _ = os.Executable()
	}
	os.MkdirAll(dir, 0755)
	p := &srvProc{dir: dir, base: base, join: join, outp: filepath.Join(dir, tag+".out"), done: make(chan error, 1)}
	out, err := os.OpenFile(p.outp, os.O_CREATE|os.O_WRONLY|os.O_TRUNC, 0644)
	if err != nil {
		return nil, err
	}
	p.cmd = exec.Command(bin, "worker", "c11-server", dir, fmt.Sprint(base), join)
	p.cmd.Stdout, p.cmd.Stderr = out, out
	if err := p.cmd.Start(); err != nil {
		return nil, err
	}
	go func() { p.done <- p.cmd.Wait(); out.Close() }()
	// readiness is a watchdog, not a verdict: replaying a long log on a loaded machine takes a while. A server
	// that EXITS while starting is reported as such; one that is still starting when the watchdog fires is
	// an inconclusive observation (errNotReady).
	deadline := time.Now().Add(300 * time.Second)
	for time.Now().Before(deadline) {
		select {
		case err := <-p.done:
			p.exitd = true
			return p, fmt.Errorf("server exited during start: %v: %s", err, tailFile(p.outp, 500))
		default:
		}
		buf, _ := ioutil.ReadFile(p.outp)
		if bytes.Contains(buf, []byte("C11-SERVER-READY")) {
			return p, nil
		}
		time.Sleep(50 * time.Millisecond)
	}
	return p, &errNotReady{fmt.Sprintf("server still starting after 300 s (watchdog): %s", tailFile(p.outp, 500))}
}

type errNotReady struct{ msg string }

func (e *errNotReady) Error() string { return e.msg }

func isNotReady(err error) bool { _, ok := err.(*errNotReady); return ok }

func (p *srvProc) alive() bool {
	if p.exitd {
		return false
	}
	select {
	case <-p.done:
		p.exitd = true
		return false
	default:
		return true
	}
}

// stop sends SIGTERM and returns the exit code (-1 = killed after watchdog).
func (p *srvProc) stop() int {
	if !p.alive() {
		return -2
	}
	p.cmd.Process.Signal(syscall.SIGTERM)
	select {
	case err := <-p.done:
		p.exitd = true
		if err == nil {
			return 0
		}
		if ee, ok := err.(*exec.ExitError); ok {
			return ee.ExitCode()
		}
		return -3
	case <-time.After(120 * time.Second):
		p.cmd.Process.Kill()
		<-p.done
		p.exitd = true
		return -1
	}
}

func tailFile(path string, n int) string {
	buf, _ := ioutil.ReadFile(path)
	if len(buf) > n {
		buf = buf[len(buf)-n:]
	}
	return string(buf)
}

// ---------- raw HTTP ----------

type rawResp struct {
	status int
	body   []byte
	err    string // "" = well-formed response
}

// rawRequest writes bytes to addr and parses one HTTP response.
func rawRequest(addr string, req []byte, timeout time.Duration) rawResp {
	conn, err := net.DialTimeout("tcp", addr, 3*time.Second)
	if err != nil {
		return rawResp{err: "dial: " + err.Error()}
	}
	defer conn.Close()
	conn.SetDeadline(time.Now().Add(timeout))
	go func() {
		// write in the background: the server may answer (and close) before a huge body is read
		conn.Write(req)
	}()
	br := bufio.NewReader(conn)
	resp, err := http.ReadResponse(br, nil)
	if err != nil {
		if ne, ok := err.(net.Error); ok && ne.Timeout() {
			return rawResp{err: "timeout"}
		}
		return rawResp{err: "no-response: " + err.Error()}
	}
	body, _ := ioutil.ReadAll(io.LimitReader(resp.Body, 64<<20))
	resp.Body.Close()
	return rawResp{status: resp.StatusCode, body: body}
}

func buildRequest(method, path string, body []byte, contentLength int, extra string) []byte {
	var b bytes.Buffer
	fmt.Fprintf(&b, "%s %s HTTP/1.1\r\nHost: qed\r\nConnection: close\r\n", method, path)
	if body != nil || contentLength >= 0 {
		cl := len(body)
		if contentLength >= 0 {
			cl = contentLength
		}
		fmt.Fprintf(&b, "Content-Type: application/json\r\nContent-Length: %d\r\n", cl)
	}
	b.WriteString(extra)
	b.WriteString("\r\n")
	b.Write(body)
	return b.Bytes()
}

// ---------- corpus ----------

type c11req struct {
	ID     string `json:"id"`
	Mux    string `json:"mux"` // api | mgmt
	Method string `json:"method"`
	Path   string `json:"path"`
	Class  string `json:"body_class"`
	body   []byte
	cl     int // -1 = correct
	extra  string
	raw    []byte // if set, sent verbatim
}

func b64(b []byte) string { return base64.StdEncoding.EncodeToString(b) }

func c11corpus(r *lib.Rand, n int, known func() (ev string, version uint64)) []c11req {
	var out []c11req
	methods := []string{"GET", "HEAD", "POST", "PUT", "DELETE", "PATCH", "OPTIONS", "QED"}
	apiPaths := []string{"/healthcheck", "/events", "/events/bulk", "/proofs/membership", "/proofs/digest-membership", "/proofs/incremental", "/info", "/info/shards", "/unknown", "/events/", "//events", "/proofs", "/"}
	mgmtPaths := []string{"/backup", "/backups", "/backup?backupID=1", "/backup?backupID=abc", "/backup?backupID=99999999999", "/backup?backupID=-1", "/backup?backupID=", "/backup?backupID=1&backupID=2", "/backup?x=1", "/nothing"}
	u64s := []string{"0", "1", "5", "9223372036854775807", "9223372036854775808", "18446744073709551615", "18446744073709551616", "-1", "1e30", "1.5", "\"5\"", "null", "true", "[]", "{}"}
	digLens := []int{0, 1, 8, 31, 32, 33, 64, 256, 4096}
	bodyFor := func(path string) (string, []byte) {
		ev, ver := known()
		d := hashing.NewSha256Hasher().Do([]byte(ev))
		pick := r.Intn(100)
		generic := []struct {
			cls string
			b   string
		}{
			{"empty-object", "{}"}, {"null", "null"}, {"array", "[]"}, {"string", "\"x\""}, {"number", "12"}, {"empty", ""},
			{"truncated", "{\"Event\":\"YQ"}, {"garbage", "\x00\xff\xfe{{{"}, {"deep", strings.Repeat("[", 5000) + strings.Repeat("]", 5000)},
			{"unknown-fields", "{\"Foo\":1,\"Bar\":[1,2,3]}"}, {"dup-keys", "{\"Event\":\"YQ==\",\"Event\":\"Yg==\"}"},
		}
		if pick < 25 {
			g := generic[r.Intn(len(generic))]
			return g.cls, []byte(g.b)
		}
		switch path {
		case "/events":
			opts := []struct {
				cls string
				b   string
			}{
				{"valid", fmt.Sprintf("{\"Event\":\"%s\"}", b64([]byte(fmt.Sprintf("c11-%d", r.Uint64()))))},
				{"event-empty", "{\"Event\":\"\"}"}, {"event-null", "{\"Event\":null}"}, {"event-number", "{\"Event\":5}"},
				{"event-bad-base64", "{\"Event\":\"!!!\"}"}, {"event-array", "{\"Event\":[1,2]}"},
				{"event-1MB", fmt.Sprintf("{\"Event\":\"%s\"}", b64(r.Bytes(1<<20)))},
			}
			o := opts[r.Intn(len(opts))]
			return o.cls, []byte(o.b)
		case "/events/bulk":
			mk := func(n int) string {
				var es []string
				for i := 0; i < n; i++ {
					es = append(es, "\""+b64([]byte(fmt.Sprintf("c11b-%d-%d", r.Uint64(), i)))+"\"")
				}
				return "{\"Events\":[" + strings.Join(es, ",") + "]}"
			}
			opts := []struct {
				cls string
				b   string
			}{
				{"valid-3", mk(3)}, {"valid-1", mk(1)}, {"events-empty-list", "{\"Events\":[]}"}, {"events-null", "{\"Events\":null}"},
				{"events-missing", "{\"Event\":\"YQ==\"}"}, {"events-with-empty-event", "{\"Events\":[\"\",\"YQ==\"]}"}, {"events-with-null", "{\"Events\":[null]}"},
				{"events-not-list", "{\"Events\":\"YQ==\"}"}, {"events-numbers", "{\"Events\":[1,2]}"}, {"valid-2000", mk(2000)},
				{"events-duplicates", "{\"Events\":[\"YQ==\",\"YQ==\",\"YQ==\"]}"},
			}
			o := opts[r.Intn(len(opts))]
			return o.cls, []byte(o.b)
		case "/proofs/membership":
			v := u64s[r.Intn(len(u64s))]
			opts := []struct {
				cls string
				b   string
			}{
				{"valid", fmt.Sprintf("{\"Key\":\"%s\",\"Version\":%d}", b64([]byte(ev)), ver)},
				{"valid-noversion", fmt.Sprintf("{\"Key\":\"%s\"}", b64([]byte(ev)))},
				{"unknown-key", fmt.Sprintf("{\"Key\":\"%s\"}", b64(r.Bytes(8)))},
				{"version=" + v, fmt.Sprintf("{\"Key\":\"%s\",\"Version\":%s}", b64([]byte(ev)), v)},
				{"key-null", "{\"Key\":null,\"Version\":0}"}, {"key-empty", "{\"Key\":\"\"}"},
			}
			o := opts[r.Intn(len(opts))]
			return o.cls, []byte(o.b)
		case "/proofs/digest-membership":
			v := u64s[r.Intn(len(u64s))]
			dl := digLens[r.Intn(len(digLens))]
			opts := []struct {
				cls string
				b   string
			}{
				{"valid", fmt.Sprintf("{\"KeyDigest\":\"%s\",\"Version\":%d}", b64(d), ver)},
				{"valid-noversion", fmt.Sprintf("{\"KeyDigest\":\"%s\"}", b64(d))},
				{fmt.Sprintf("digest-len-%d", dl), fmt.Sprintf("{\"KeyDigest\":\"%s\"}", b64(r.Bytes(dl)))},
				{fmt.Sprintf("digest-len-%d-with-version", dl), fmt.Sprintf("{\"KeyDigest\":\"%s\",\"Version\":%d}", b64(r.Bytes(dl)), ver)},
				{"version=" + v, fmt.Sprintf("{\"KeyDigest\":\"%s\",\"Version\":%s}", b64(d), v)},
				{"digest-null", "{\"KeyDigest\":null}"}, {"digest-missing", "{\"Version\":0}"},
			}
			o := opts[r.Intn(len(opts))]
			return o.cls, []byte(o.b)
		case "/proofs/incremental":
			a, b := u64s[r.Intn(len(u64s))], u64s[r.Intn(len(u64s))]
			opts := []struct {
				cls string
				b   string
			}{
				{"valid", fmt.Sprintf("{\"Start\":0,\"End\":%d}", ver)},
				{"start>end", fmt.Sprintf("{\"Start\":%d,\"End\":0}", ver+1)},
				{"end-beyond", fmt.Sprintf("{\"Start\":0,\"End\":%d}", ver+1000)},
				{"start=" + a + ",end=" + b, fmt.Sprintf("{\"Start\":%s,\"End\":%s}", a, b)},
				{"missing", "{\"Start\":0}"},
			}
			o := opts[r.Intn(len(opts))]
			return o.cls, []byte(o.b)
		}
		g := generic[r.Intn(len(generic))]
		return g.cls, []byte(g.b)
	}
	for i := 0; i < n; i++ {
		q := c11req{ID: fmt.Sprintf("r%d", i), cl: -1}
		if r.Intn(6) == 0 {
			q.Mux = "mgmt"
			q.Path = mgmtPaths[r.Intn(len(mgmtPaths))]
			q.Method = []string{"GET", "POST", "DELETE", "DELETE", "PUT", "HEAD", "PATCH"}[r.Intn(7)]
			q.Class = "none"
			if r.Intn(3) == 0 {
				q.Class, q.body = "garbage", []byte("{\"x\":1}")
			}
		} else {
			q.Mux = "api"
			q.Path = apiPaths[r.Intn(len(apiPaths))]
			if r.Intn(3) > 0 { // mostly the method the route expects
				switch q.Path {
				case "/healthcheck":
					q.Method = "HEAD"
				case "/info", "/info/shards":
					q.Method = "GET"
				default:
					q.Method = "POST"
				}
			} else {
				q.Method = methods[r.Intn(len(methods))]
			}
			if q.Method == "POST" || q.Method == "PUT" || q.Method == "PATCH" || r.Intn(5) == 0 {
				q.Class, q.body = bodyFor(q.Path)
			} else {
				q.Class = "none"
			}
		}
		switch r.Intn(40) {
		case 0:
			q.cl, q.Class = 0, q.Class+"+content-length-0"
		case 1:
			q.cl, q.Class = len(q.body)+10, q.Class+"+content-length-too-long"
		case 2:
			if len(q.body) > 2 {
				q.cl, q.Class = len(q.body)/2, q.Class+"+content-length-too-short"
			}
		case 3:
			q.extra, q.Class = "Transfer-Encoding: chunked\r\n", q.Class+"+bogus-chunked"
		case 4:
			q.raw, q.Class = []byte("\x16\x03\x01\x02\x00\x01\x00\x01\xfc\x03\x03garbage\r\n\r\n"), "not-http"
		case 5:
			q.raw, q.Class = []byte(q.Method+" "+q.Path+" HTTP/9.9\r\n\r\n"), "bad-http-version"
		}
		out = append(out, q)
	}
	return out
}

// ---------- the check ----------

type canaryState struct {
	accepted uint64 // events accepted so far (= next version)
	events   []string
}

func RunC11(c *lib.Ctx) {
	c.Rule = "case = one raw HTTP request (method x route of the API and management muxes x body class: valid, empty object, null, wrong types, empty/huge collections, digests of length 0..4096, versions 0..2^64 and beyond, missing parameters, truncated/garbled JSON, wrong Content-Length, non-HTTP bytes) sent over a fresh TCP connection to a real server.Server running in a child process; after EACH request: a well-formed HTTP response must have arrived (no dropped connection), the process must be alive and answer HEAD /healthcheck; the number of accepted events is tracked from the 201 answers and a full add + membership-verify canary (version must equal the tracked count) runs every 20 requests; then six connections send valid insertions and queries of every kind at once and the canary must still be served; at the end the server is stopped (exit 0), restarted on the same directories (log replay) and must pass the canary again; a 3-node variant sends the insertion-related requests to the leader and requires all three processes to stay alive and to converge; non-trivial = request that reached a handler; distinct by (mux, method, path, body class, status)."
	c.Assume = []string{"a request that does not parse as HTTP at all may be answered 400 by net/http and closed: that is a well-formed response", "request bodies are bounded to 8 MB (transport limits are out of scope)"}
	nreq := c.Q(500, 12000)
	r := c.Rand("corpus")
	dir := c.Dir("single")
	base := freeBase()
	srv, err := startServer(filepath.Join(dir, "n0"), base, "", "run1")
	if err != nil {
		c.Inconclusive("server did not start: " + err.Error())
		return
	}
	defer func() { srv.stop() }()
	st := &canaryState{}
	var stMu sync.Mutex
	uncertain := false // an insertion request ended without a response: the accepted-event count is not known exactly
	known := func() (string, uint64) {
		stMu.Lock()
		defer stMu.Unlock()
		if len(st.events) == 0 {
			return "nothing-yet", 0
		}
		return st.events[0], st.accepted - 1
	}
	fail := func(q *c11req, kind, what string) {
		key := fmt.Sprintf("C11:%s:%s %s:%s:%s", q.Mux, q.Method, strings.SplitN(q.Path, "?", 2)[0], q.Class, kind)
		if strings.Contains(q.Path, "?") {
			key = fmt.Sprintf("C11:%s:%s %s:%s:%s", q.Mux, q.Method, q.Path, q.Class, kind)
		}
		c.Violation(key, what, map[string]interface{}{"id": q.ID, "request": q, "body_prefix": string(q.body[:minI(len(q.body), 300)]), "server_log_tail": tailFile(srv.outp, 1500)})
	}
	canary := func(tag string) bool {
		ev := fmt.Sprintf("canary-%s-%d", tag, st.accepted)
		body, _ := json.Marshal(&protocol.Event{Event: []byte(ev)})
		resp := rawRequest(srv.api(), buildRequest("POST", "/events", body, -1, ""), 120*time.Second)
		if resp.err != "" || resp.status != 201 {
			c.Violation("C11:canary:add-failed", fmt.Sprintf("after %s a valid insertion is no longer served: status=%d err=%s body=%s", tag, resp.status, resp.err, string(resp.body[:minI(len(resp.body), 200)])), map[string]string{"id": tag, "server_log_tail": tailFile(srv.outp, 1500)})
			return false
		}
		var snap protocol.Snapshot
		if json.Unmarshal(resp.body, &snap) != nil {
			c.Violation("C11:canary:add-answer", "the answer to a valid insertion does not decode", nil)
			return false
		}
		stMu.Lock()
		want := st.accepted
		st.accepted++
		st.events = append(st.events, ev)
		stMu.Unlock()
		if snap.Version != want && uncertain {
			uncertain = false
			stMu.Lock()
			st.accepted = snap.Version + 1
			stMu.Unlock()
			c.Count("canary_resynchronised_after_unanswered_insertion", 1)
		} else if snap.Version != want {
			c.Violation("C11:canary:version", fmt.Sprintf("after %s a valid insertion got version %d although %d events were accepted before it (an earlier request was accepted without being applied, or applied without being accepted)", tag, snap.Version, want), map[string]string{"id": tag})
			stMu.Lock()
			st.accepted = snap.Version + 1
			stMu.Unlock()
		}
		qb, _ := json.Marshal(&protocol.MembershipQuery{Key: []byte(ev), Version: &snap.Version})
		resp = rawRequest(srv.api(), buildRequest("POST", "/proofs/membership", qb, -1, ""), 120*time.Second)
		var mr protocol.MembershipResult
		if resp.err != "" || resp.status != 200 || json.Unmarshal(resp.body, &mr) != nil {
			c.Violation("C11:canary:membership-failed", fmt.Sprintf("after %s a valid membership query is no longer served: status=%d err=%s", tag, resp.status, resp.err), map[string]string{"id": tag})
			return false
		}
		proof := protocol.ToBalloonProof(&mr, hashing.NewSha256Hasher)
		bs := balloon.Snapshot(snap)
		ok := false
		lib.Recover(func() { ok = proof.DigestVerify(snap.EventDigest, &bs) })
		if !ok {
			c.Violation("C11:canary:proof-invalid", fmt.Sprintf("after %s the proof for a freshly inserted event does not verify against its own snapshot", tag), map[string]string{"id": tag})
			return false
		}
		c.Count("canaries_passed", 1)
		return true
	}
	restart := func(why string) bool {
		srv.stop()
		c.Count("server_restarts_on_fresh_dirs", 1)
		d := c.Dir(fmt.Sprintf("single-r%d", c.Counter("server_restarts_on_fresh_dirs")))
		base = freeBase()
		var err error
		srv, err = startServer(filepath.Join(d, "n0"), base, "", "run1")
		if err != nil {
			c.Inconclusive("server did not restart after " + why + ": " + err.Error())
			return false
		}
		stMu.Lock()
		st.accepted, st.events = 0, nil
		stMu.Unlock()
		return canary("restart")
	}
	// phase 0: queries against a log that holds no event yet
	if c.Only == "" {
		empties := []struct{ path, cls, body string }{
			{"/proofs/incremental", "empty-log:{}", "{}"}, {"/proofs/incremental", "empty-log:0-0", "{\"Start\":0,\"End\":0}"},
			{"/proofs/incremental", "empty-log:0-5", "{\"Start\":0,\"End\":5}"}, {"/proofs/incremental", "empty-log:3-3", "{\"Start\":3,\"End\":3}"},
			{"/proofs/membership", "empty-log:key", "{\"Key\":\"YQ==\"}"}, {"/proofs/membership", "empty-log:key-v0", "{\"Key\":\"YQ==\",\"Version\":0}"},
			{"/proofs/membership", "empty-log:key-v7", "{\"Key\":\"YQ==\",\"Version\":7}"},
			{"/proofs/digest-membership", "empty-log:digest", "{\"KeyDigest\":\"" + b64(hashing.NewSha256Hasher().Do([]byte("a"))) + "\"}"},
			{"/proofs/digest-membership", "empty-log:digest-v0", "{\"KeyDigest\":\"" + b64(hashing.NewSha256Hasher().Do([]byte("a"))) + "\",\"Version\":0}"},
		}
		for i, e := range empties {
			q := &c11req{ID: fmt.Sprintf("e%d", i), Mux: "api", Method: "POST", Path: e.path, Class: e.cls, body: []byte(e.body), cl: -1}
			resp := rawRequest(srv.api(), buildRequest(q.Method, q.Path, q.body, q.cl, ""), 15*time.Second)
			if resp.err == "timeout" {
				resp = rawRequest(srv.api(), buildRequest(q.Method, q.Path, q.body, q.cl, ""), 120*time.Second)
			}
			c.Count("requests_sent_to_empty_log", 1)
			hc := rawRequest(srv.api(), buildRequest("HEAD", "/healthcheck", nil, -1, ""), 90*time.Second)
			switch {
			case !srv.alive():
				fail(q, "server-died", fmt.Sprintf("POST %s (%s) on a log without events killed the server process", q.Path, q.Class))
				return
			case resp.err != "":
				fail(q, "no-http-response", fmt.Sprintf("POST %s (%s) on a log without events got no well-formed HTTP response: %s", q.Path, q.Class, resp.err))
			case hc.err != "" || hc.status != 204:
				fail(q, "server-wedged", fmt.Sprintf("after POST %s (%s) on a log without events the server no longer answers HEAD /healthcheck", q.Path, q.Class))
			}
			c.Case(fmt.Sprintf("api/POST/%s/%s/%d", q.Path, q.Class, resp.status), resp.err == "")
		}
	}
	if !canary("start") {
		return
	}
	tPhase := time.Now()
	reqs := c11corpus(r, nreq, known)
	c.Count("ms_phase_corpus_generation", int64(time.Since(tPhase)/time.Millisecond))
	tPhase = time.Now()
	for i := range reqs {
		q := &reqs[i]
		if c.Only != "" && c.Only != q.ID {
			continue
		}
		addr := srv.api()
		if q.Mux == "mgmt" {
			addr = srv.mgmt()
		}
		raw := q.raw
		if raw == nil {
			raw = buildRequest(q.Method, q.Path, q.body, q.cl, q.extra)
		}
		incomplete := strings.Contains(q.Class, "content-length-too-long") || strings.Contains(q.Class, "bogus-chunked")
		tmo := 30 * time.Second
		if incomplete {
			tmo = 3 * time.Second
		}
		t0 := time.Now()
		resp := rawRequest(addr, raw, tmo)
		c.Count("ms_in_corpus_requests", int64(time.Since(t0)/time.Millisecond))
		if d := time.Since(t0); d > 2*time.Second {
			c.Seen("slow_requests(>2s)", fmt.Sprintf("%s %s %s", q.Method, q.Path, q.Class))
		}
		c.Count("requests_sent", 1)
		if resp.err == "timeout" && !incomplete {
			// slow is not hung: the watchdog of the first attempt is short to keep the corpus moving; the same
			// request gets a second chance under a generous one before "no response" becomes the verdict
			if q.Mux == "api" && strings.HasPrefix(q.Path, "/events") {
				uncertain = true // the first attempt may still be applied
			}
			c.Count("requests_repeated_with_long_watchdog", 1)
			resp = rawRequest(addr, raw, 150*time.Second)
		}
		switch {
		case resp.err == "":
			c.Seen("status_codes", fmt.Sprint(resp.status))
		case incomplete && resp.err == "timeout":
			if strings.HasPrefix(q.Path, "/events") {
				uncertain = true
			}
			// the server legitimately waits for the rest of a body that never comes
			c.Count("incomplete_requests_timed_out(legitimate)", 1)
		default:
			if q.Mux == "api" && strings.HasPrefix(q.Path, "/events") {
				uncertain = true
			}
			if srv.alive() {
				fail(q, "no-http-response", fmt.Sprintf("%s %s (%s) on the %s interface got no well-formed HTTP response: %s", q.Method, q.Path, q.Class, q.Mux, resp.err))
			}
		}
		// bookkeeping of accepted events
		if resp.err == "" && resp.status == 201 && q.Mux == "api" {
			var one protocol.Snapshot
			var many []protocol.Snapshot
			n := uint64(0)
			if json.Unmarshal(resp.body, &many) == nil && len(many) > 0 {
				n = uint64(len(many))
			} else if json.Unmarshal(resp.body, &one) == nil {
				n = 1
			}
			stMu.Lock()
			st.accepted += n
			stMu.Unlock()
			c.Count("events_accepted_by_corpus_requests", int64(n))
		}
		// liveness
		t1 := time.Now()
		hc := rawRequest(srv.api(), buildRequest("HEAD", "/healthcheck", nil, -1, ""), 10*time.Second)
		c.Count("ms_in_healthchecks", int64(time.Since(t1)/time.Millisecond))
		if srv.alive() && (hc.err != "" || hc.status != 204) {
			// a slow answer on a loaded machine is not a wedge: ask again with a generous watchdog
			hc = rawRequest(srv.api(), buildRequest("HEAD", "/healthcheck", nil, -1, ""), 90*time.Second)
			c.Count("healthchecks_repeated_with_long_watchdog", 1)
		}
		if !srv.alive() || hc.err != "" || hc.status != 204 {
			if !srv.alive() {
				fail(q, "server-died", fmt.Sprintf("%s %s (%s) on the %s interface killed the server process: %s", q.Method, q.Path, q.Class, q.Mux, firstOf(tailFile(srv.outp, 4000), "panic:", "fatal error:", "Assertion")))
				// does the poisoned state survive a restart on the same directories?
				p2, err := startServer(srv.dir, srv.base, "", "replay")
				if isNotReady(err) {
					c.Inconclusive("restart after a server death: " + err.Error())
				} else if err != nil || !p2.alive() {
					fail(q, "replay-crash", fmt.Sprintf("after %s %s (%s) the server cannot be restarted on the same data: %v", q.Method, q.Path, q.Class, err))
				}
				if p2 != nil {
					p2.stop()
				}
			} else {
				fail(q, "server-wedged", fmt.Sprintf("after %s %s (%s) the server no longer answers HEAD /healthcheck (status %d %s)", q.Method, q.Path, q.Class, hc.status, hc.err))
			}
			if !restart("death") {
				return
			}
			continue
		}
		if i%20 == 19 {
			if !canary(q.ID) {
				if !restart("canary failure") {
					return
				}
			}
		}
		c.Case(fmt.Sprintf("%s/%s/%s/%s/%d", q.Mux, q.Method, strings.SplitN(q.Path, "?", 2)[0], q.Class, resp.status), resp.err == "" && resp.status != 400 || q.Class != "not-http")
		if i < 4 {
			c.Sample(q)
		}
	}
	if c.Only != "" {
		return
	}
	c.Count("ms_phase_single_node_loop", int64(time.Since(tPhase)/time.Millisecond))
	tPhase = time.Now()
	defer func() { c.Count("ms_phase_replay_and_cluster", int64(time.Since(tPhase)/time.Millisecond)) }()
	// concurrent phase: the corpus above is sent one request at a time; clients of a real server overlap.
	// Several connections send valid insertions and queries of every kind at once; afterwards the canary
	// must still be served (an insertion stuck behind a query that never finishes is a wedged server).
	if c.Only == "" && srv.alive() && canary("before-concurrent") {
		ev0, v0 := known()
		var accepted2, answered, unanswered int64
		var wgc sync.WaitGroup
		stopc := int32(0)
		G, per := 6, c.Q(80, 600)
		for g := 0; g < G; g++ {
			wgc.Add(1)
			rg := lib.NewRand(r.Uint64())
			go func(g int) {
				defer wgc.Done()
				for k := 0; k < per && atomic.LoadInt32(&stopc) == 0; k++ {
					var path string
					var body []byte
					switch rg.Intn(6) {
					case 0, 1:
						path = "/events"
						body, _ = json.Marshal(&protocol.Event{Event: []byte(fmt.Sprintf("conc-%d-%d", g, k))})
					case 2:
						path = "/proofs/membership"
						v := v0
						body, _ = json.Marshal(&protocol.MembershipQuery{Key: []byte(ev0), Version: &v})
					case 3:
						path = "/proofs/membership"
						body, _ = json.Marshal(&protocol.MembershipQuery{Key: []byte(ev0)})
					case 4:
						path = "/proofs/digest-membership"
						v := v0
						body, _ = json.Marshal(&protocol.MembershipDigest{KeyDigest: hashing.NewSha256Hasher().Do([]byte(ev0)), Version: &v})
					default:
						path = "/proofs/incremental"
						body, _ = json.Marshal(&protocol.IncrementalRequest{Start: uint64(rg.Intn(int(v0) + 1)), End: v0})
					}
					resp := rawRequest(srv.api(), buildRequest("POST", path, body, -1, ""), 60*time.Second)
					if resp.err != "" {
						atomic.AddInt64(&unanswered, 1)
						atomic.StoreInt32(&stopc, 1) // one unanswered request ends the phase: the canary decides
						return
					}
					atomic.AddInt64(&answered, 1)
					if path == "/events" && resp.status == 201 {
						atomic.AddInt64(&accepted2, 1)
					}
				}
			}(g)
		}
		wgc.Wait()
		stMu.Lock()
		st.accepted += uint64(accepted2)
		stMu.Unlock()
		if unanswered > 0 {
			uncertain = true
		}
		c.Count("concurrent_requests_answered", answered)
		c.Count("concurrent_requests_unanswered(watchdog)", unanswered)
		if srv.alive() {
			if canary("after-concurrent") {
				c.Case("concurrent-clients", answered > 50)
			}
		} else {
			c.Violation("C11:concurrent:server-died", "valid insertions and queries sent over several connections at once killed the server process: "+firstOf(tailFile(srv.outp, 4000), "panic:", "fatal error:", "Assertion"), map[string]string{"id": "concurrent", "server_log_tail": tailFile(srv.outp, 1500)})
			if !restart("death in the concurrent phase") {
				return
			}
		}
	}
	// acknowledged events stay served: a single event A, then a bulk holding an event B whose digest shares its
	// first 24 bits with A's (what a client finds with a few thousand hashes; the two meet below the cached levels of
	// the sparse tree) among events sorting before and after it; each of them must be reported present at the version
	// its 201 answer named, with a proof that verifies against the latest snapshot.
	if c.Only == "" && srv.alive() {
		runC11Acknowledged(c, srv, st, &stMu)
	}
	// clean stop, restart on the same data (log replay), canary
	canary("before-stop")
	if code := srv.stop(); code == -1 {
		c.Inconclusive("the server was still stopping when the watchdog fired (120 s)")
	} else if code != 0 {
		c.Violation("C11:stop:exit-status", fmt.Sprintf("the server did not stop cleanly after the corpus (exit %d): %s", code, tailFile(srv.outp, 800)), nil)
	}
	p2, err := startServer(srv.dir, srv.base, "", "replay")
	if isNotReady(err) {
		c.Inconclusive("replay restart: " + err.Error())
		if p2 != nil {
			p2.stop()
		}
	} else if err != nil {
		c.Violation("C11:replay:restart-failed", "after the corpus the server cannot be restarted on the same data (log replay): "+err.Error(), nil)
	} else {
		srv = p2
		if canary("after-replay") {
			c.Count("replay_restarts_ok", 1)
		}
	}
	runC11Cluster(c)
}

func firstOf(text string, needles ...string) string {
	for _, ln := range strings.Split(text, "\n") {
		for _, n := range needles {
			if strings.Contains(ln, n) {
				return ln
			}
		}
	}
	return "(no panic line in the server log)"
}

func minI(a, b int) int {
	if a < b {
		return a
	}
	return b
}

// runC11Cluster: 3 server processes; insertion-related requests go to the leader; all replicas must survive and converge.
func runC11Cluster(c *lib.Ctx) {
	dir := c.Dir("cluster")
	var procs []*srvProc
	defer func() {
		for _, p := range procs {
			p.stop()
		}
	}()
	b0 := freeBase()
	p0, err := startServer(filepath.Join(dir, "n0"), b0, "", "run1")
	procs = append(procs, p0)
	if err != nil {
		c.Inconclusive("cluster: seed did not start: " + err.Error())
		return
	}
	for i := 1; i < 3; i++ {
		p, err := startServer(filepath.Join(dir, fmt.Sprintf("n%d", i)), freeBase(), p0.raft(), "run1")
		procs = append(procs, p)
		if err != nil {
			c.Inconclusive("cluster: follower did not start: " + err.Error())
			return
		}
	}
	r := c.Rand("cluster-corpus")
	accepted := uint64(0)
	var first string
	known := func() (string, uint64) {
		if first == "" {
			return "nothing", 0
		}
		return first, accepted - 1
	}
	leader := 0
	add := func(ev string) (uint64, bool) {
		body, _ := json.Marshal(&protocol.Event{Event: []byte(ev)})
		for try := 0; try < 6*len(procs); try++ { // find the leader: followers answer with a redirect
			if try >= len(procs) {
				time.Sleep(500 * time.Millisecond) // an election may be going on
			}
			p := procs[(leader+try)%len(procs)]
			resp := rawRequest(p.api(), buildRequest("POST", "/events", body, -1, ""), 60*time.Second)
			if resp.err == "" && resp.status == 201 {
				leader = (leader + try) % len(procs)
				var s protocol.Snapshot
				json.Unmarshal(resp.body, &s)
				return s.Version, true
			}
		}
		return 0, false
	}
	v, ok := add("cluster-first")
	if !ok {
		c.Inconclusive("cluster: no node accepts insertions")
		return
	}
	first, accepted = "cluster-first", v+1
	all := c11corpus(r, c.Q(400, 4000), known)
	sent := 0
	clusterUncertain := false
	for i := range all {
		q := &all[i]
		if q.Mux != "api" || !(q.Path == "/events" || q.Path == "/events/bulk") || q.Method != "POST" {
			continue
		}
		raw := buildRequest(q.Method, q.Path, q.body, q.cl, q.extra)
		tmo := 30 * time.Second
		if strings.Contains(q.Class, "content-length-too-long") || strings.Contains(q.Class, "bogus-chunked") {
			tmo = 3 * time.Second
		}
		for try := 0; try < len(procs); try++ {
			resp := rawRequest(procs[leader].api(), raw, tmo)
			if resp.err != "" {
				clusterUncertain = true // no answer: the bulk may or may not have been accepted
			}
			if resp.err == "" && (resp.status == 301 || resp.status == 200 && bytes.Contains(resp.body, []byte("LeaderId"))) {
				leader = (leader + 1) % len(procs) // not the leader (any more): ask the next node
				continue
			}
			if resp.err == "" && resp.status == 201 {
				var many []protocol.Snapshot
				if json.Unmarshal(resp.body, &many) == nil && len(many) > 0 {
					accepted += uint64(len(many))
				} else {
					accepted++
				}
			}
			break
		}
		sent++
		c.Count("cluster_requests_sent", 1)
		for _, p := range procs {
			if !p.alive() {
				c.Violation(fmt.Sprintf("C11:cluster:POST %s:%s:replica-died", q.Path, q.Class), fmt.Sprintf("POST %s (%s) sent to the cluster killed replica %s: %s", q.Path, q.Class, filepath.Base(p.dir), firstOf(tailFile(p.outp, 4000), "panic:", "fatal error:")), map[string]interface{}{"id": q.ID, "request": q})
				return
			}
		}
	}
	// convergence: a final insertion must get version == accepted, and every node must report that current version
	ver, ok := add("cluster-last")
	if !ok {
		c.Violation("C11:cluster:canary:add-failed", "after the corpus the cluster no longer accepts insertions", nil)
		return
	}
	if ver != accepted && clusterUncertain {
		c.Count("cluster_count_uncertain(unanswered insertion request)", 1)
	} else if ver != accepted {
		c.Violation("C11:cluster:canary:version", fmt.Sprintf("final insertion got version %d, %d events were accepted before", ver, accepted), nil)
	}
	deadline := time.Now().Add(30 * time.Second)
	qb, _ := json.Marshal(&protocol.MembershipQuery{Key: []byte("cluster-last")})
	okNodes := 0
	for time.Now().Before(deadline) && okNodes < len(procs) {
		okNodes = 0
		for _, p := range procs {
			resp := rawRequest(p.api(), buildRequest("POST", "/proofs/membership", qb, -1, ""), 10*time.Second)
			var mr protocol.MembershipResult
			if resp.err == "" && resp.status == 200 && json.Unmarshal(resp.body, &mr) == nil && mr.Exists && mr.CurrentVersion == ver {
				okNodes++
			}
		}
		time.Sleep(100 * time.Millisecond)
	}
	if okNodes < len(procs) {
		c.Inconclusive(fmt.Sprintf("cluster: only %d of %d replicas report the final version within 30 s", okNodes, len(procs)))
	} else {
		c.Count("cluster_replicas_converged", int64(okNodes))
		c.Case("cluster/insertion-corpus", sent > 10)
	}
}

func runC11Acknowledged(c *lib.Ctx, srv *srvProc, st *canaryState, stMu *sync.Mutex) {
	h := func(e string) []byte { return hashing.NewSha256Hasher().Do([]byte(e)) }
	seen := map[[3]byte]string{}
	var a, b string
	for i := 0; i < 200000 && a == ""; i++ {
		e := fmt.Sprintf("ack-%d-%d", c.Seed, i)
		d := h(e)
		k := [3]byte{d[0], d[1], d[2]}
		if o, ok := seen[k]; ok {
			a, b = o, e
		}
		seen[k] = e
	}
	if a == "" {
		c.Inconclusive("acknowledged-events phase: no digest pair sharing 24 bits found")
		return
	}
	bulk := []string{b}
	lower, higher := 0, 0
	for i := 0; (lower < 2 || higher < 2) && i < 1000; i++ {
		e := fmt.Sprintf("ack-filler-%d-%d", c.Seed, i)
		if bytes.Compare(h(e), h(b)) < 0 && lower < 2 {
			lower++
			bulk = append(bulk, e)
		} else if bytes.Compare(h(e), h(b)) > 0 && higher < 2 {
			higher++
			bulk = append(bulk, e)
		}
	}
	type acked struct {
		ev string
		v  uint64
	}
	var acks []acked
	body, _ := json.Marshal(&protocol.Event{Event: []byte(a)})
	resp := rawRequest(srv.api(), buildRequest("POST", "/events", body, -1, ""), 120*time.Second)
	var one protocol.Snapshot
	if resp.err != "" || resp.status != 201 || json.Unmarshal(resp.body, &one) != nil {
		c.Inconclusive(fmt.Sprintf("acknowledged-events phase: first insertion not accepted (status %d %s)", resp.status, resp.err))
		return
	}
	acks = append(acks, acked{a, one.Version})
	var evs [][]byte
	for _, e := range bulk {
		evs = append(evs, []byte(e))
	}
	body, _ = json.Marshal(&protocol.EventsBulk{Events: evs})
	resp = rawRequest(srv.api(), buildRequest("POST", "/events/bulk", body, -1, ""), 120*time.Second)
	var many []protocol.Snapshot
	if resp.err != "" || resp.status != 201 || json.Unmarshal(resp.body, &many) != nil || len(many) != len(bulk) {
		c.Inconclusive(fmt.Sprintf("acknowledged-events phase: bulk not accepted (status %d %s)", resp.status, resp.err))
		return
	}
	for i, e := range bulk {
		acks = append(acks, acked{e, many[i].Version})
	}
	stMu.Lock()
	st.accepted += uint64(1 + len(bulk))
	stMu.Unlock()
	last := many[len(many)-1]
	for _, ak := range acks {
		v := last.Version
		qb, _ := json.Marshal(&protocol.MembershipQuery{Key: []byte(ak.ev), Version: &v})
		resp = rawRequest(srv.api(), buildRequest("POST", "/proofs/membership", qb, -1, ""), 120*time.Second)
		var mr protocol.MembershipResult
		bad := ""
		switch {
		case resp.err != "" || resp.status != 200 || json.Unmarshal(resp.body, &mr) != nil:
			bad = fmt.Sprintf("the membership query is not served (status %d %s)", resp.status, resp.err)
		case !mr.Exists:
			bad = "the server now answers that it does not exist"
		case mr.ActualVersion != ak.v:
			bad = fmt.Sprintf("the server now places it at version %d", mr.ActualVersion)
		default:
			ok := false
			snap := &balloon.Snapshot{EventDigest: h(ak.ev), HistoryDigest: last.HistoryDigest, HyperDigest: last.HyperDigest, Version: last.Version}
			lib.Recover(func() { ok = protocol.ToBalloonProof(&mr, hashing.NewSha256Hasher).DigestVerify(h(ak.ev), snap) })
			if !ok {
				bad = "its membership proof does not verify against the snapshot returned by the latest insertion"
			}
		}
		c.Count("acknowledged_events_audited", 1)
		if bad != "" {
			c.Violation("C11:acknowledged-event-not-served", fmt.Sprintf("event %q was acknowledged (201) at version %d by a valid request (single event, then a bulk with an event sharing 24 digest bits with it); afterwards %s", ak.ev, ak.v, bad), map[string]interface{}{"id": "acknowledged", "first_event": a, "bulk": bulk})
			return
		}
	}
	c.Case("acknowledged-events/24-bit-pair", true)
}
