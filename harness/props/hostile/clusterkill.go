package hostile

import (
	"encoding/json"
	"fmt"
	"path/filepath"
	"strings"
	"sync"
	"syscall"
	"time"

	"github.com/bbva/qed/balloon"
	"github.com/bbva/qed/crypto/hashing"
	"github.com/bbva/qed/protocol"

	"qedverif/lib"
)

// RunClusterKills (part of C07): three real server processes form a cluster; while a client inserts through
// the leader, one process (a follower or the leader) is SIGKILLed at a seeded instant and later restarted on
// the same directories. Afterwards every acknowledged snapshot must still verify on EVERY node, acknowledged
// versions must be unique, and all nodes must report the same current version.
func RunClusterKills(c *lib.Ctx, n int) {
	r := c.Rand("cluster-kills")
	type plan struct {
		id, kind    string
		delay, down time.Duration
		seed        uint64
	}
	var plans []plan
	for k := 0; k < n; k++ {
		plans = append(plans, plan{fmt.Sprintf("ck%d", k), []string{"follower", "leader", "follower"}[k%3],
			time.Duration(300+r.Intn(1500)) * time.Millisecond, time.Duration(300+r.Intn(1500)) * time.Millisecond, r.Uint64()})
	}
	var wg sync.WaitGroup
	sem := make(chan struct{}, 3)
	for _, p := range plans {
		if c.Only != "" && c.Only != p.id {
			continue
		}
		wg.Add(1)
		sem <- struct{}{}
		go func(p plan) {
			defer wg.Done()
			defer func() { <-sem }()
			verdict := "inconclusive"
			for attempt := 0; attempt < 2 && verdict == "inconclusive"; attempt++ {
				verdict = clusterKillCase(c, fmt.Sprintf("%s-a%d", p.id, attempt), p.id, p.kind, p.delay, p.down, lib.NewRand(p.seed+uint64(attempt)))
			}
			if verdict == "inconclusive" {
				c.Inconclusive(fmt.Sprintf("cluster kill %s did not complete", p.id))
			}
		}(p)
	}
	wg.Wait()
}

type ckAck struct {
	ev   string
	snap protocol.Snapshot
}

func clusterKillCase(c *lib.Ctx, dirName, id, victimKind string, delay, down time.Duration, r *lib.Rand) string {
	dir := c.Dir(dirName)
	var procs []*srvProc
	defer func() {
		for _, p := range procs {
			if p != nil {
				p.stop()
			}
		}
	}()
	p0, err := startServer(filepath.Join(dir, "n0"), freeBase(), "", "run1")
	procs = append(procs, p0)
	if err != nil {
		return "inconclusive"
	}
	for i := 1; i < 3; i++ {
		p, err := startServer(filepath.Join(dir, fmt.Sprintf("n%d", i)), freeBase(), p0.raft(), "run1")
		procs = append(procs, p)
		if err != nil {
			return "inconclusive"
		}
	}
	fail := func(key, what string) {
		c.Violation("C07:cluster:"+key, fmt.Sprintf("cluster kill %s (%s killed after %v, down for %v): %s", id, victimKind, delay, down, what), map[string]string{"id": id})
	}
	leader := 0
	var acks []ckAck
	seq := 0
	add := func() bool {
		seq++
		ev := fmt.Sprintf("%s-ev%d", dirName, seq)
		body, _ := json.Marshal(&protocol.Event{Event: []byte(ev)})
		for try := 0; try < 6; try++ {
			p := procs[(leader+try)%3]
			if !p.alive() {
				continue
			}
			resp := rawRequest(p.api(), buildRequest("POST", "/events", body, -1, ""), 5*time.Second)
			if resp.err == "" && resp.status == 201 {
				var s protocol.Snapshot
				if json.Unmarshal(resp.body, &s) == nil {
					leader = (leader + try) % 3
					acks = append(acks, ckAck{ev, s})
					return true
				}
			}
		}
		return false
	}
	for i := 0; i < 5; i++ {
		if !add() {
			return "inconclusive"
		}
	}
	victim := leader
	if victimKind == "follower" {
		victim = (leader + 1 + r.Intn(2)) % 3
	}
	// load while the kill happens
	killAt := time.Now().Add(delay)
	killed := false
	var restartAt time.Time
	restarted := false
	deadline := time.Now().Add(delay + down + 4*time.Second)
	for time.Now().Before(deadline) {
		if !killed && time.Now().After(killAt) {
			procs[victim].cmd.Process.Signal(syscall.SIGKILL)
			<-procs[victim].done
			procs[victim].exitd = true
			killed = true
			restartAt = time.Now().Add(down)
			c.Count("cluster_processes_killed", 1)
			c.Seen("cluster_kill_kinds", victimKind)
		}
		if killed && !restarted && time.Now().After(restartAt) {
			var np *srvProc
			var err error
			for try := 0; try < 4; try++ {
				np, err = startServer(procs[victim].dir, procs[victim].base, "", fmt.Sprintf("run2-%d", try))
				if err == nil {
					break
				}
				// server.Start gives up when it sees no leader within 5 s: on a loaded machine that is a matter of
				// timing, not of the data; only a start that dies for another reason is a verdict
				if !strings.Contains(err.Error(), "timeout expired") && !strings.Contains(err.Error(), "not ready") {
					fail("restart-failed", fmt.Sprintf("the killed %s cannot be restarted on its data: %v", victimKind, err))
					return "violated"
				}
				time.Sleep(500 * time.Millisecond)
			}
			if err != nil {
				return "inconclusive"
			}
			procs[victim] = np
			restarted = true
		}
		add() // failures while no leader is available are simply not acknowledged
		time.Sleep(10 * time.Millisecond)
	}
	if !restarted {
		return "inconclusive"
	}
	// settle: a final insertion, then every node must report its version
	ok := false
	for t := 0; t < 100 && !ok; t++ {
		ok = add()
		if !ok {
			time.Sleep(200 * time.Millisecond)
		}
	}
	if !ok {
		fail("no-insertions-after-recovery", "the cluster accepts no insertion after the killed node returned")
		return "violated"
	}
	last := acks[len(acks)-1]
	seenV := map[uint64]string{}
	for _, a := range acks {
		if o, dup := seenV[a.snap.Version]; dup {
			fail("version-acknowledged-twice", fmt.Sprintf("version %d was acknowledged for %q and %q", a.snap.Version, o, a.ev))
		}
		seenV[a.snap.Version] = a.ev
	}
	conv := time.Now().Add(60 * time.Second)
	okNodes := 0
	for time.Now().Before(conv) && okNodes < 3 {
		okNodes = 0
		for _, p := range procs {
			if mr := ckMembership(p, last.ev, nil); mr != nil && mr.Exists && mr.CurrentVersion == last.snap.Version {
				okNodes++
			}
		}
		time.Sleep(100 * time.Millisecond)
	}
	if okNodes < 3 {
		return "inconclusive"
	}
	// every acknowledged snapshot verifies on every node
	for _, a := range acks {
		if r.Intn(3) != 0 && a.ev != last.ev {
			continue
		}
		for pi, p := range procs {
			v := a.snap.Version
			mr := ckMembership(p, a.ev, &v)
			c.Count("cluster_proofs_checked_after_kill", 1)
			if mr == nil {
				fail("proof-unavailable", fmt.Sprintf("node n%d does not answer a membership query for an event acknowledged at version %d", pi, v))
				continue
			}
			proof := protocol.ToBalloonProof(mr, hashing.NewSha256Hasher)
			snap := &balloon.Snapshot{EventDigest: a.snap.EventDigest, HistoryDigest: a.snap.HistoryDigest, HyperDigest: last.snap.HyperDigest, Version: v}
			good := false
			lib.Recover(func() { good = proof.DigestVerify(a.snap.EventDigest, snap) })
			if !good || mr.ActualVersion != v {
				fail("acknowledged-snapshot-not-verifiable", fmt.Sprintf("node n%d: the event acknowledged at version %d before/around the kill does not verify afterwards (exists=%v actual=%d current=%d)", pi, v, mr.Exists, mr.ActualVersion, mr.CurrentVersion))
			}
		}
	}
	c.Count("cluster_kill_cases_completed", 1)
	c.Count("cluster_acknowledged_insertions", int64(len(acks)))
	c.Case(fmt.Sprintf("cluster-kill/%s", victimKind), len(acks) > 10)
	return "held"
}

func ckMembership(p *srvProc, ev string, version *uint64) *protocol.MembershipResult {
	if !p.alive() {
		return nil
	}
	qb, _ := json.Marshal(&protocol.MembershipQuery{Key: []byte(ev), Version: version})
	resp := rawRequest(p.api(), buildRequest("POST", "/proofs/membership", qb, -1, ""), 10*time.Second)
	var mr protocol.MembershipResult
	if resp.err != "" || resp.status != 200 || json.Unmarshal(resp.body, &mr) != nil {
		return nil
	}
	return &mr
}
