package hostile

import (
	"encoding/binary"
	"encoding/json"
	"fmt"
	"io/ioutil"
	"net/http"
	"net/http/httptest"
	"os"
	"runtime"
	"runtime/debug"
	"runtime/metrics"
	"runtime/pprof"
	"strconv"
	"strings"
	"sync"
	"sync/atomic"
	"syscall"
	"time"

	"github.com/bbva/qed/balloon"
	"github.com/bbva/qed/client"
	"github.com/bbva/qed/crypto/hashing"
	"github.com/bbva/qed/gossip"
	"github.com/bbva/qed/protocol"
)

// ---------- stages (entry points of the code under test) ----------

var stageNames = []string{
	"none",
	"ToBalloonProof", "DigestVerify", "Verify", "ToIncrementalProof", "IncrementalProof.Verify",
	"client.Membership", "client.MembershipDigest", "client.MembershipVerify", "client.MembershipAutoVerify",
	"client.Incremental", "client.IncrementalVerify", "client.IncrementalAutoVerify", "client.GetSnapshot",
	"store.GetSnapshot",
}

func stageID(name string) uint64 {
	for i, s := range stageNames {
		if s == name {
			return uint64(i)
		}
	}
	return 0
}

const (
	qedPrefix     = "github.com/bbva/qed/"
	allocCapBytes = 256 << 20 // cumulative allocation of one stage above this is "exhausts memory"
)

// panicSite returns the innermost frame of the recovered stack that belongs to QED, as
// "pkg.(*T).Method" — no line numbers, no addresses.
func panicSite(stack string) string {
	for _, ln := range strings.Split(stack, "\n") {
		if !strings.HasPrefix(ln, qedPrefix) {
			continue
		}
		f := strings.TrimPrefix(ln, qedPrefix)
		if i := strings.LastIndex(f, "("); i > 0 {
			f = f[:i]
		}
		if i := strings.LastIndex(f, "/"); i >= 0 { // balloon/history.X -> history.X
			f = f[i+1:]
		}
		return f
	}
	return "outside-qed"
}

func qedFrames(stack string, max int) []string {
	var out []string
	for _, ln := range strings.Split(stack, "\n") {
		if strings.HasPrefix(ln, qedPrefix) {
			f := strings.TrimPrefix(ln, qedPrefix)
			if i := strings.LastIndex(f, "("); i > 0 {
				f = f[:i]
			}
			out = append(out, f)
			if len(out) >= max {
				break
			}
		}
	}
	return out
}

type stageRes struct {
	Name   string
	Out    string // true | false | error | ok | panic
	Site   string
	Msg    string
	Frames []string
	Alloc  uint64
}

// ---------- the executor living in one (child) process ----------

type executor struct {
	cp       *corpus
	srv      *httptest.Server
	httpc    *http.Client
	store    *gossip.RestSnapshotStore
	mu       sync.Mutex
	cur      *hcase
	storeN   int
	requests int64
	progress []byte // mmap'ed: [0:8] case index, [8:16] stage id
	sample   []metrics.Sample
	stageNow atomic.Value
}

func newExecutor(cp *corpus, progressFile string) (*executor, error) {
	x := &executor{cp: cp}
	x.sample = []metrics.Sample{{Name: "/gc/heap/allocs:bytes"}}
	if progressFile != "" {
		f, err := os.OpenFile(progressFile, os.O_RDWR|os.O_CREATE, 0644)
		if err != nil {
			return nil, err
		}
		if err := f.Truncate(16); err != nil {
			return nil, err
		}
		m, err := syscall.Mmap(int(f.Fd()), 0, 16, syscall.PROT_READ|syscall.PROT_WRITE, syscall.MAP_SHARED)
		if err != nil {
			return nil, err
		}
		f.Close()
		x.progress = m
	} else {
		x.progress = make([]byte, 16)
	}
	binary.LittleEndian.PutUint64(x.progress[0:8], ^uint64(0))
	x.srv = httptest.NewServer(http.HandlerFunc(x.handle))
	x.httpc = &http.Client{Transport: &http.Transport{MaxIdleConnsPerHost: 8}, Timeout: 60 * time.Second}
	x.store = gossip.NewRestSnapshotStore([]string{x.srv.URL}, 10*time.Second, 6*time.Hour)
	return x, nil
}

func (x *executor) close() { x.srv.Close() }

func (x *executor) allocs() uint64 {
	metrics.Read(x.sample)
	if x.sample[0].Value.Kind() == metrics.KindUint64 {
		return x.sample[0].Value.Uint64()
	}
	return 0
}

// handle is the scripted (hostile) QED server and snapshot store.
func (x *executor) handle(w http.ResponseWriter, req *http.Request) {
	ioutil.ReadAll(req.Body)
	atomic.AddInt64(&x.requests, 1)
	x.mu.Lock()
	hc := x.cur
	var rep storeReply
	isStore := req.URL.Path == "/snapshot"
	if isStore && hc != nil && len(hc.Store) > 0 {
		k := x.storeN
		if k >= len(hc.Store) {
			k = len(hc.Store) - 1
		}
		rep = hc.Store[k]
		x.storeN++
	}
	x.mu.Unlock()
	if hc == nil {
		w.WriteHeader(503)
		return
	}
	switch {
	case isStore:
		if rep.Genuine {
			v, err := strconv.ParseUint(req.URL.Query().Get("v"), 10, 64)
			if err != nil || v >= uint64(len(x.cp.Snaps)) {
				w.WriteHeader(404)
				w.Write([]byte("snapshot not found"))
				return
			}
			s := x.cp.Snaps[v]
			b, _ := json.Marshal(&protocol.SignedSnapshot{Snapshot: &s, Signature: []byte("signature")})
			w.WriteHeader(200)
			w.Write(b)
			return
		}
		w.WriteHeader(rep.Status)
		w.Write(rep.Body)
	case strings.HasPrefix(req.URL.Path, "/proofs/"):
		w.Header().Set("Content-Type", "application/json")
		w.WriteHeader(hc.Status)
		if hc.Status != 204 {
			w.Write(hc.Body)
		}
	default:
		w.WriteHeader(404)
	}
}

// stage runs one entry point under recover, recording where it is (for the parent, should the
// process die) and how much it allocated.
func (x *executor) stage(name string, f func() string) (res stageRes) {
	res.Name = name
	binary.LittleEndian.PutUint64(x.progress[8:16], stageID(name))
	x.stageNow.Store(name)
	a0 := x.allocs()
	defer func() {
		if r := recover(); r != nil {
			st := string(debug.Stack())
			res.Out = "panic"
			res.Msg = fmt.Sprint(r)
			if len(res.Msg) > 300 {
				res.Msg = res.Msg[:300] + "..."
			}
			res.Site = panicSite(st)
			res.Frames = qedFrames(st, 8)
		}
		a1 := x.allocs()
		if a1 > a0 {
			res.Alloc = a1 - a0
		}
	}()
	res.Out = f()
	return
}

func boolOut(ok bool, err error) string {
	if err != nil {
		return "error"
	}
	if ok {
		return "true"
	}
	return "false"
}

func bsnap(s protocol.Snapshot) *balloon.Snapshot { b := balloon.Snapshot(s); return &b }

// run executes one case; the returned stages are in execution order (stops at the first panic).
func (x *executor) run(hc *hcase) (stages []stageRes, decoderRejected bool) {
	binary.LittleEndian.PutUint64(x.progress[0:8], uint64(hc.Idx))
	x.mu.Lock()
	x.cur, x.storeN = hc, 0
	x.mu.Unlock()
	defer func() {
		x.mu.Lock()
		x.cur = nil
		x.mu.Unlock()
		binary.LittleEndian.PutUint64(x.progress[0:8], ^uint64(0)) // between cases
	}()
	it := &x.cp.Items[hc.Item]
	hasherF := hashing.NewSha256Hasher
	add := func(s stageRes) bool {
		stages = append(stages, s)
		return s.Out != "panic"
	}
	// the verifier's own inputs: its digest / event and the snapshots it trusts
	digest := hashing.Digest(it.Digest)
	event := it.Event
	if event == nil {
		event = []byte("some event the verifier holds")
	}
	msnap := &balloon.Snapshot{EventDigest: digest, HistoryDigest: it.SnapH.HistoryDigest, HyperDigest: it.SnapC.HyperDigest, Version: it.SnapH.Version}

	newClient := func() *client.HTTPClient {
		c, err := client.NewSimpleHTTPClient(x.httpc, []string{x.srv.URL}, x.srv.URL)
		if err != nil {
			panic("harness: cannot build client: " + err.Error())
		}
		return c
	}

	switch hc.Target {
	case tDirectM:
		var mr protocol.MembershipResult
		if err := json.Unmarshal(hc.Body, &mr); err != nil {
			return nil, true
		}
		var proof *balloon.MembershipProof
		if !add(x.stage("ToBalloonProof", func() string { proof = protocol.ToBalloonProof(&mr, hasherF); return "ok" })) {
			return
		}
		// (Verify runs even if DigestVerify panicked: the two entry points are judged independently)
		add(x.stage("DigestVerify", func() string { return boolOut(proof.DigestVerify(digest, msnap), nil) }))
		if it.Event != nil || !hc.Untouched { // (an untouched answer is only checked against the event it was asked for)
			add(x.stage("Verify", func() string { return boolOut(proof.Verify(event, msnap), nil) }))
		}
	case tDirectI:
		var ir protocol.IncrementalResponse
		if err := json.Unmarshal(hc.Body, &ir); err != nil {
			return nil, true
		}
		var proof *balloon.IncrementalProof
		if !add(x.stage("ToIncrementalProof", func() string { proof = protocol.ToIncrementalProof(&ir, hasherF); return "ok" })) {
			return
		}
		add(x.stage("IncrementalProof.Verify", func() string { return boolOut(proof.Verify(bsnap(it.SnapH), bsnap(it.SnapC)), nil) }))
	case tCliM, tCliMD:
		c := newClient()
		var proof *balloon.MembershipProof
		var err error
		name := "client.Membership"
		call := func() string {
			proof, err = c.Membership(event, &it.Version)
			if err != nil {
				return "error"
			}
			return "ok"
		}
		if hc.Target == tCliMD {
			name = "client.MembershipDigest"
			call = func() string {
				proof, err = c.MembershipDigest(digest, &it.Version)
				if err != nil {
					return "error"
				}
				return "ok"
			}
		}
		if !add(x.stage(name, call)) || err != nil || proof == nil {
			return
		}
		add(x.stage("client.MembershipVerify", func() string { return boolOut(c.MembershipVerify(digest, proof, msnap)) }))
	case tCliMAuto:
		c := newClient()
		add(x.stage("client.MembershipAutoVerify", func() string { return boolOut(c.MembershipAutoVerify(digest, &it.Version)) }))
	case tCliI:
		c := newClient()
		var proof *balloon.IncrementalProof
		var err error
		if !add(x.stage("client.Incremental", func() string {
			proof, err = c.Incremental(it.Start, it.End)
			if err != nil {
				return "error"
			}
			return "ok"
		})) || err != nil || proof == nil {
			return
		}
		add(x.stage("client.IncrementalVerify", func() string { return boolOut(c.IncrementalVerify(proof, bsnap(it.SnapH), bsnap(it.SnapC))) }))
	case tCliIAuto:
		c := newClient()
		add(x.stage("client.IncrementalAutoVerify", func() string { return boolOut(c.IncrementalAutoVerify(it.Start, it.End)) }))
	case tCliSnap:
		c := newClient()
		add(x.stage("client.GetSnapshot", func() string {
			s, err := c.GetSnapshot(it.SnapH.Version)
			if err != nil {
				return "error"
			}
			if s == nil {
				return "nil-snapshot"
			}
			return "ok"
		}))
	case tStoreSnap:
		add(x.stage("store.GetSnapshot", func() string {
			s, err := x.store.GetSnapshot(it.SnapH.Version)
			if err != nil {
				return "error"
			}
			if s == nil || s.Snapshot == nil {
				return "nil-snapshot"
			}
			return "ok"
		}))
	}
	return
}

// ---------- batch worker (child process) ----------

type panicRec struct {
	Key    string   `json:"key"`
	Stage  string   `json:"stage"`
	Site   string   `json:"site"`
	Count  int64    `json:"count"`
	Msg    string   `json:"panic"`
	Frames []string `json:"qed_frames"`
	First  caseDump `json:"first_case"`
}

type caseDump struct {
	ID        string `json:"id"`
	Target    string `json:"target"`
	Gen       string `json:"generator"`
	Desc      string `json:"mutation"`
	Store     string `json:"store"`
	Item      string `json:"genuine_answer"`
	Status    int    `json:"status"`
	BodyLen   int    `json:"body_len"`
	Body      string `json:"body"`
	StoreBody string `json:"store_bodies,omitempty"`
}

func dump(cp *corpus, hc *hcase) caseDump {
	d := caseDump{ID: hc.ID, Target: hc.Target, Gen: hc.Gen, Desc: hc.Desc, Store: hc.StoreDesc, Item: cp.Items[hc.Item].Shape, Status: hc.Status, BodyLen: len(hc.Body)}
	b := hc.Body
	if len(b) > 3000 {
		b = b[:3000]
	}
	d.Body = string(b)
	var sb []string
	for _, s := range hc.Store {
		if s.Genuine {
			sb = append(sb, "<genuine>")
		} else {
			t := s.Body
			if len(t) > 400 {
				t = t[:400]
			}
			sb = append(sb, fmt.Sprintf("%d:%s", s.Status, t))
		}
	}
	d.StoreBody = strings.Join(sb, " || ")
	return d
}

type memRec struct {
	Key   string   `json:"key"`
	Stage string   `json:"stage"`
	Alloc uint64   `json:"alloc_bytes"`
	Case  caseDump `json:"case"`
}

type batchResult struct {
	From, To     int
	Done         int
	Counts       map[string]int64
	Sigs         map[string]int64
	Trivial      int64
	Panics       map[string]*panicRec
	Mem          []memRec
	MaxAlloc     uint64
	MaxAllocCase string
	MaxAllocBody int
	Samples      []caseDump
	SlowestMs    int64
	SlowestCase  string
	HungCase     int // -1 = none
	HungStage    string
	Requests     int64
	HarnessErr   string
}

func newBatchResult(from, to int) *batchResult {
	return &batchResult{From: from, To: to, Counts: map[string]int64{}, Sigs: map[string]int64{}, Panics: map[string]*panicRec{}, HungCase: -1}
}

func (br *batchResult) record(cp *corpus, hc *hcase, stages []stageRes, rejected bool) {
	br.Done++
	br.Counts["target:"+hc.Target]++
	br.Counts["generator:"+hc.Gen]++
	outcome := "no-stage"
	if rejected {
		outcome = "decoder-rejected"
	}
	for _, s := range stages {
		br.Counts["stage:"+s.Name+":"+s.Out]++
		outcome = s.Out
		if s.Alloc > br.MaxAlloc {
			br.MaxAlloc, br.MaxAllocCase, br.MaxAllocBody = s.Alloc, hc.ID+"/"+s.Name, len(hc.Body)
		}
		if s.Alloc > allocCapBytes {
			br.Mem = append(br.Mem, memRec{Key: "C12:" + s.Name + ":memory", Stage: s.Name, Alloc: s.Alloc, Case: dump(cp, hc)})
		}
		if s.Out == "panic" {
			key := "C12:" + s.Name + ":" + s.Site
			pr := br.Panics[key]
			if pr == nil {
				pr = &panicRec{Key: key, Stage: s.Name, Site: s.Site, Msg: s.Msg, Frames: s.Frames, First: dump(cp, hc)}
				br.Panics[key] = pr
			}
			pr.Count++
			outcome = "panic"
		}
	}
	// the client reports a rejected body as an error; name that outcome for the histogram
	br.Counts["outcome:"+outcome]++
	if hc.Untouched {
		br.Trivial++
		br.Counts["untouched_genuine:"+outcome]++
	} else {
		br.Sigs[hc.Target+"|"+hc.Gen+"|"+outcome]++
	}
	if len(br.Samples) < 2 && !hc.Untouched && hc.Idx >= len(canonTable) {
		d := dump(cp, hc)
		if len(d.Body) > 300 {
			d.Body = d.Body[:300] + "..."
		}
		d.Desc += " => " + outcome
		br.Samples = append(br.Samples, d)
	}
}

func loadCorpus(path string) (*corpus, error) {
	buf, err := ioutil.ReadFile(path)
	if err != nil {
		return nil, err
	}
	var cp corpus
	if err := json.Unmarshal(buf, &cp); err != nil {
		return nil, err
	}
	cp.index()
	return &cp, nil
}

const (
	exitHung       = 97
	caseWatchdog   = 20 * time.Second
	childAddrSpace = 4 << 30
)

// batchWorker: qv worker c12-batch <corpus> <from> <to> <thorough 0|1> <result> <progress> <watchdog 0|1>
func batchWorker(args []string) int {
	if len(args) < 7 {
		fmt.Fprintln(os.Stderr, "c12-batch: bad args")
		return 2
	}
	// cap the address space: a verifier that needs gigabytes for a kilobyte answer dies here
	// (the parent sees the death and the progress record).
	lim := &syscall.Rlimit{Cur: childAddrSpace, Max: childAddrSpace}
	if err := syscall.Setrlimit(syscall.RLIMIT_AS, lim); err != nil {
		fmt.Fprintln(os.Stderr, "c12-batch: setrlimit:", err)
	}
	runtime.MemProfileRate = 0
	debug.SetGCPercent(400)
	cp, err := loadCorpus(args[0])
	if err != nil {
		fmt.Fprintln(os.Stderr, "c12-batch: corpus:", err)
		return 2
	}
	from, _ := strconv.Atoi(args[1])
	to, _ := strconv.Atoi(args[2])
	thorough := args[3] == "1"
	resFile, progFile, wd := args[4], args[5], args[6] == "1"
	x, err := newExecutor(cp, progFile)
	if err != nil {
		fmt.Fprintln(os.Stderr, "c12-batch: executor:", err)
		return 2
	}
	defer x.close()
	br := newBatchResult(from, to)
	var resMu sync.Mutex
	write := func() {
		br.Requests = atomic.LoadInt64(&x.requests)
		buf, _ := json.Marshal(br)
		ioutil.WriteFile(resFile+".tmp", buf, 0644)
		os.Rename(resFile+".tmp", resFile)
	}
	var caseStart int64 // unix nanos of the running case, 0 = idle
	var caseIdx int64
	if wd {
		go func() {
			for {
				time.Sleep(500 * time.Millisecond)
				st := atomic.LoadInt64(&caseStart)
				if st != 0 && time.Since(time.Unix(0, st)) > caseWatchdog {
					idx := int(atomic.LoadInt64(&caseIdx))
					fmt.Fprintf(os.Stderr, "c12-batch: case %d did not return within %v; goroutines:\n", idx, caseWatchdog)
					pprof.Lookup("goroutine").WriteTo(os.Stderr, 2)
					resMu.Lock()
					if atomic.LoadInt64(&caseStart) != st { // it returned meanwhile
						resMu.Unlock()
						continue
					}
					br.HungCase = idx
					if s, ok := x.stageNow.Load().(string); ok {
						br.HungStage = s
					}
					write()
					os.Exit(exitHung)
				}
			}
		}()
	}
	for i := from; i < to; i++ {
		hc := genCase(cp, i, thorough)
		atomic.StoreInt64(&caseIdx, int64(i))
		atomic.StoreInt64(&caseStart, time.Now().UnixNano())
		t0 := time.Now()
		stages, rejected := x.run(hc)
		atomic.StoreInt64(&caseStart, 0)
		resMu.Lock()
		if ms := time.Since(t0).Milliseconds(); ms > br.SlowestMs {
			br.SlowestMs, br.SlowestCase = ms, fmt.Sprintf("%s %s %s: %s / %s (answer %d bytes)", hc.ID, hc.Target, hc.Gen, hc.Desc, hc.StoreDesc, len(hc.Body))
		}
		br.record(cp, hc, stages, rejected)
		resMu.Unlock()
	}
	resMu.Lock()
	write()
	return 0
}
