package stores

import (
	"bytes"
	"encoding/binary"
	"fmt"
	"os"
	"sort"
	"strings"
	"time"

	"github.com/bbva/qed/storage"
	"github.com/bbva/qed/storage/bplus"
	"github.com/bbva/qed/storage/rocks"

	"qedverif/lib"
)

// ---------------------------------------------------------------------------------------------
// C14: each store back-end behaves as an atomic, ordered, per-table map.
//
// Oracle: one Go map per table (kvModel). It is updated from the generated mutations only and
// never reads the store. Every answer of the store is compared with what the map predicts.
// ---------------------------------------------------------------------------------------------

// Tables in prefix order (the bplus back-end orders tables by Table.Prefix()).
var c14Tables = []storage.Table{storage.HyperTable, storage.HyperCacheTable, storage.HistoryTable, storage.FSMStateTable, storage.DefaultTable}

type kvModel struct {
	t      map[storage.Table]map[string][]byte
	sorted map[storage.Table][]string
}

func newKVModel() *kvModel {
	m := &kvModel{t: map[storage.Table]map[string][]byte{}, sorted: map[storage.Table][]string{}}
	for _, t := range c14Tables {
		m.t[t] = map[string][]byte{}
	}
	return m
}

func (m *kvModel) put(t storage.Table, k, v []byte) {
	if _, ok := m.t[t][string(k)]; !ok {
		delete(m.sorted, t)
	}
	m.t[t][string(k)] = append([]byte{}, v...)
}

// keys returns the table's keys in bytewise ascending order.
func (m *kvModel) keys(t storage.Table) []string {
	if s, ok := m.sorted[t]; ok {
		return s
	}
	s := make([]string, 0, len(m.t[t]))
	for k := range m.t[t] {
		s = append(s, k)
	}
	sort.Strings(s) // Go compares strings bytewise: same order as bytes.Compare
	m.sorted[t] = s
	return s
}

type pair struct{ k, v []byte }

func (m *kvModel) all(t storage.Table) []pair {
	ks := m.keys(t)
	out := make([]pair, len(ks))
	for i, k := range ks {
		out[i] = pair{[]byte(k), m.t[t][k]}
	}
	return out
}

func (m *kvModel) rng(t storage.Table, start, end []byte) []pair {
	ks := m.keys(t)
	i := sort.SearchStrings(ks, string(start))
	var out []pair
	for ; i < len(ks) && ks[i] <= string(end); i++ {
		out = append(out, pair{[]byte(ks[i]), m.t[t][ks[i]]})
	}
	return out
}

// ---------- key / value generators ----------

var alphabet = []byte{0x00, 0x01, 0x7f, 0x80, 0xfe, 0xff}

// rocksSeekKey is the key RocksDBStore.GetLast seeks backwards from.
var rocksSeekKey = bytes.Repeat([]byte{0xff}, 10)

func genAlphaKey(r *lib.Rand) []byte {
	var n int
	switch x := r.Intn(100); {
	case x < 15:
		n = 1
	case x < 30:
		n = 2
	case x < 42:
		n = 3
	case x < 60:
		n = r.Range(4, 9)
	case x < 72:
		n = 10
	case x < 80:
		n = 11
	default:
		n = r.Range(12, 40)
	}
	k := make([]byte, n)
	switch mode := r.Intn(10); {
	case mode < 2: // one repeated byte (00..00, ff..ff, ...)
		b := alphabet[r.Intn(len(alphabet))]
		for i := range k {
			k[i] = b
		}
	case mode < 4: // run of one byte followed by a random tail
		b := alphabet[r.Intn(len(alphabet))]
		p := r.Intn(n + 1)
		for i := range k {
			if i < p {
				k[i] = b
			} else {
				k[i] = alphabet[r.Intn(len(alphabet))]
			}
		}
	default:
		for i := range k {
			k[i] = alphabet[r.Intn(len(alphabet))]
		}
	}
	return k
}

var idxBoundaries = []uint64{0, 1, 255, 256, 65535, 65536, 1<<32 - 1, 1 << 32, 1<<63 - 1, 1 << 63, 1<<64 - 2, 1<<64 - 1}

// history layout: 8-byte big-endian index + 2-byte height.
func genHistoryKey(r *lib.Rand) []byte {
	k := make([]byte, 10)
	var idx uint64
	if r.Intn(4) == 0 {
		idx = idxBoundaries[r.Intn(len(idxBoundaries))]
	} else {
		idx = uint64(r.Intn(200))
	}
	binary.BigEndian.PutUint64(k, idx)
	h := uint16(r.Intn(12))
	if r.Intn(40) == 0 {
		h = 0xffff
	}
	binary.BigEndian.PutUint16(k[8:], h)
	return k
}

// hyper layout: 2-byte height + 32-byte index.
func genHyperKey(r *lib.Rand) []byte {
	k := make([]byte, 34)
	binary.BigEndian.PutUint16(k, uint16(r.Pick(0, 1, 8, 200, 232, 233, 255, 256)))
	switch r.Intn(5) {
	case 0: // all zero
	case 1:
		for i := 2; i < 34; i++ {
			k[i] = 0xff
		}
	case 2:
		k[2] = 0x80
	case 3:
		k[2] = byte(r.Intn(4))
		k[33] = byte(r.Intn(4))
	default:
		copy(k[2:], r.Bytes(32))
	}
	return k
}

func genLayoutKey(r *lib.Rand, t storage.Table) []byte {
	switch t {
	case storage.HistoryTable:
		return genHistoryKey(r)
	case storage.HyperTable, storage.HyperCacheTable:
		return genHyperKey(r)
	case storage.DefaultTable: // "mandatory but not used": no layout of its own
		return genAlphaKey(r)
	default:
		return append([]byte{}, storage.FSMStateTableKey...)
	}
}

func genValue(r *lib.Rand) []byte {
	switch x := r.Intn(100); {
	case x < 4:
		return nil
	case x < 9:
		return []byte{}
	case x < 45:
		return r.Bytes(r.Range(1, 8))
	case x < 80:
		return r.Bytes(32)
	case x < 86:
		return r.Bytes(r.Range(900, 1100))
	default:
		return r.Bytes(r.Range(9, 100))
	}
}

func tname(t storage.Table) string { return t.String() }

// ---------- sequential runner ----------

type seqRun struct {
	cp      casePlan
	be      string // bplus | rocks
	dir     string
	st      storage.Store
	m       *kvModel
	r       *lib.Rand
	res     *caseResult
	oplog   *os.File
	opIdx   int
	recent  []string
	prev    string
	active  []storage.Table // tables this case populates
	profile string
	reopens int
	maxSize int
	reads   int
	writes  int
}

func (s *seqRun) open() error {
	if s.be == "bplus" {
		s.st = bplus.NewBPlusTreeStore()
		return nil
	}
	st, err := rocks.NewRocksDBStore(s.dir, time.Duration(0))
	if err != nil {
		return err
	}
	s.st = st
	return nil
}

// begin logs the operation before it is issued (so an abort names it) and records evidence.
func (s *seqRun) begin(kind, desc string) {
	line := fmt.Sprintf("%s %d %s %s", s.cp.ID, s.opIdx, kind, desc)
	fmt.Fprintln(s.oplog, line)
	s.recent = append(s.recent, fmt.Sprintf("%d %s %s", s.opIdx, kind, desc))
	if len(s.recent) > 14 {
		s.recent = s.recent[1:]
	}
	s.res.count("ops_checked:"+s.be+":"+kind, 1)
	if s.prev != "" {
		s.res.seen("op_bigrams:"+s.be, s.prev+">"+kind)
	}
	s.prev = kind
	s.opIdx++
}

func (s *seqRun) fail(op, class, what string, extra map[string]interface{}) {
	key := fmt.Sprintf("C14:%s:%s:%s", s.be, op, class)
	d := map[string]interface{}{"case": s.cp, "backend": s.be, "op_index": s.opIdx - 1, "recent_ops": append([]string{}, s.recent...),
		"table_sizes": s.sizes()}
	for k, v := range extra {
		d[k] = v
	}
	s.res.violation(key, fmt.Sprintf("case %s (%s) op %d: %s", s.cp.ID, s.be, s.opIdx-1, what), d)
}

func (s *seqRun) sizes() map[string]int {
	out := map[string]int{}
	for _, t := range c14Tables {
		out[tname(t)] = len(s.m.t[t])
	}
	return out
}

func sizeBucket(n int) string {
	switch {
	case n == 0:
		return "0"
	case n == 1:
		return "1"
	case n <= 10:
		return "2-10"
	case n <= 100:
		return "11-100"
	case n <= 1000:
		return "101-1000"
	case n <= 2000:
		return "1001-2000"
	default:
		return "2001+"
	}
}

func (s *seqRun) pickTable() storage.Table { return c14Tables[s.r.Intn(len(c14Tables))] }

func (s *seqRun) pickActive() storage.Table { return s.active[s.r.Intn(len(s.active))] }

// existingKey returns a key present in table t of the model (nil if the table is empty).
func (s *seqRun) existingKey(t storage.Table) []byte {
	ks := s.m.keys(t)
	if len(ks) == 0 {
		return nil
	}
	// favour the extremes: first / last keys are where off-by-one errors live
	switch s.r.Intn(6) {
	case 0:
		return []byte(ks[0])
	case 1:
		return []byte(ks[len(ks)-1])
	}
	return []byte(ks[s.r.Intn(len(ks))])
}

func (s *seqRun) anyExistingKey() []byte {
	for _, i := range s.r.Perm(len(c14Tables)) {
		if k := s.existingKey(c14Tables[i]); k != nil {
			return k
		}
	}
	return nil
}

// neighbour derives a key that is close to k in byte order.
func (s *seqRun) neighbour(k []byte) []byte {
	out := append([]byte{}, k...)
	switch s.r.Intn(5) {
	case 0:
		out = append(out, 0x00)
	case 1:
		out = append(out, 0xff)
	case 2:
		if len(out) > 1 {
			out = out[:len(out)-1]
		}
	case 3:
		out[len(out)-1]++
	default:
		out[len(out)-1]--
	}
	return out
}

func (s *seqRun) genKey(t storage.Table) []byte {
	x := s.r.Intn(100)
	switch {
	case x < 40:
		return genAlphaKey(s.r)
	case x < 72:
		return genLayoutKey(s.r, t)
	case x < 84:
		if k := s.existingKey(t); k != nil { // overwrite
			return k
		}
	case x < 93:
		if k := s.anyExistingKey(); k != nil { // same key in another table: isolation
			return k
		}
	default:
		if k := s.anyExistingKey(); k != nil {
			return s.neighbour(k)
		}
	}
	return genAlphaKey(s.r)
}

// ----- operations -----

func (s *seqRun) doMutate(preload int) {
	var muts []*storage.Mutation
	tables := map[storage.Table]bool{}
	dups := 0
	if preload > 0 {
		// one big batch in a real layout: dense history positions or hyper-cache tiles
		t := s.pickActive()
		for i := 0; i < preload; i++ {
			var k []byte
			if t == storage.HistoryTable || t == storage.FSMStateTable {
				k = make([]byte, 10)
				binary.BigEndian.PutUint64(k, uint64(i))
				binary.BigEndian.PutUint16(k[8:], uint16(i%3))
			} else {
				k = make([]byte, 34)
				binary.BigEndian.PutUint16(k, uint16(230+i%27))
				binary.BigEndian.PutUint32(k[2:], uint32(i)*2654435761)
			}
			muts = append(muts, storage.NewMutation(t, k, s.r.Bytes(s.r.Pick(8, 32))))
		}
		tables[t] = true
	} else {
		var n int
		switch s.profile {
		case "small":
			n = s.r.Pick(0, 1, 1, 2, 3, 4, 6, 8)
		default:
			n = s.r.Pick(0, 1, 2, 5, 10, 20, 40, 60)
		}
		for i := 0; i < n; i++ {
			t := s.pickActive()
			var k []byte
			if len(muts) > 0 && s.r.Intn(6) == 0 {
				// duplicate key inside the batch (same table): the later one must win
				prev := muts[s.r.Intn(len(muts))]
				t, k = prev.Table, append([]byte{}, prev.Key...)
				dups++
			} else {
				k = s.genKey(t)
			}
			muts = append(muts, storage.NewMutation(t, k, genValue(s.r)))
			tables[t] = true
		}
	}
	var meta []byte
	if s.r.Bool() {
		meta = s.r.Bytes(s.r.Range(1, 24))
	}
	var tn []string
	for _, t := range c14Tables {
		if tables[t] {
			tn = append(tn, tname(t))
		}
	}
	desc := fmt.Sprintf("n=%d tables=%s dups=%d meta=%d", len(muts), strings.Join(tn, "+"), dups, len(meta))
	if len(muts) <= 12 {
		var ks []string
		for _, m := range muts {
			ks = append(ks, tname(m.Table)+"/"+hexKey(m.Key))
		}
		desc += " keys=" + strings.Join(ks, ",")
	}
	s.begin("mutate", desc)
	// the store gets its own copies: the model must not share memory with it
	give := make([]*storage.Mutation, len(muts))
	for i, m := range muts {
		give[i] = storage.NewMutation(m.Table, append([]byte{}, m.Key...), cloneVal(m.Value))
	}
	err := s.st.Mutate(give, meta)
	if err != nil {
		s.fail("Mutate", "error", fmt.Sprintf("Mutate of %d mutations returned %v", len(muts), err), nil)
		return
	}
	for _, m := range muts {
		s.m.put(m.Table, m.Key, m.Value)
	}
	if len(muts) > 0 {
		s.writes++
	}
	s.res.count("mutations_applied:"+s.be, int64(len(muts)))
	if dups > 0 {
		s.res.count("batches_with_duplicate_keys:"+s.be, 1)
	}
	if len(tables) > 1 {
		s.res.count("batches_spanning_tables:"+s.be, 1)
	}
	for _, t := range c14Tables {
		n := len(s.m.t[t])
		if n > s.maxSize {
			s.maxSize = n
		}
		s.res.seen("table_sizes_reached:"+s.be, tname(t)+":"+sizeBucket(n))
	}
}

func cloneVal(v []byte) []byte {
	if v == nil {
		return nil
	}
	return append([]byte{}, v...)
}

func (s *seqRun) doGet() {
	t := s.pickTable()
	var k []byte
	mode := "fresh"
	switch x := s.r.Intn(10); {
	case x < 5:
		if k = s.existingKey(t); k != nil {
			mode = "existing"
		}
	case x < 7:
		if k = s.anyExistingKey(); k != nil {
			mode = "other-table-key"
		}
	case x < 9:
		if e := s.anyExistingKey(); e != nil {
			k = s.neighbour(e)
			mode = "neighbour"
		}
	}
	if k == nil {
		k = s.genKey(t)
	}
	want, hit := s.m.t[t][string(k)]
	kind := "get_miss"
	if hit {
		kind = "get_hit"
	}
	s.begin(kind, fmt.Sprintf("%s %s mode=%s", tname(t), hexKey(k), mode))
	kv, err := s.st.Get(t, append([]byte{}, k...))
	s.reads++
	ex := map[string]interface{}{"table": tname(t), "key": hexKey(k)}
	if hit {
		if err != nil || kv == nil {
			s.fail("Get", "miss-on-present-key", fmt.Sprintf("Get(%s,%s) = %v, the key was written", tname(t), hexKey(k), err), ex)
			return
		}
		if !bytes.Equal(kv.Key, k) {
			s.fail("Get", "wrong-key-returned", fmt.Sprintf("Get(%s,%s) returned key %s", tname(t), hexKey(k), hexKey(kv.Key)), ex)
		}
		if !bytes.Equal(kv.Value, want) {
			ex["want"], ex["got"] = hexKey(want), hexKey(kv.Value)
			s.fail("Get", "wrong-value", fmt.Sprintf("Get(%s,%s) returned a value that is not the last one written", tname(t), hexKey(k)), ex)
		}
		return
	}
	if err == nil {
		ex["got"] = hexKey(kv.Value)
		s.fail("Get", "hit-on-absent-key", fmt.Sprintf("Get(%s,%s) found a value, the key was never written to this table", tname(t), hexKey(k)), ex)
	} else if err != storage.ErrKeyNotFound {
		s.fail("Get", "error", fmt.Sprintf("Get(%s,%s) = %v, want ErrKeyNotFound", tname(t), hexKey(k), err), ex)
	}
}

var aboveAll = bytes.Repeat([]byte{0xff}, 41)

func (s *seqRun) bound(t storage.Table) ([]byte, string) {
	switch x := s.r.Intn(12); {
	case x < 4:
		if k := s.existingKey(t); k != nil {
			return k, "equal"
		}
	case x < 6:
		if k := s.existingKey(t); k != nil {
			return s.neighbour(k), "near"
		}
	case x < 7:
		return []byte{0x00}, "below"
	case x < 8:
		return append([]byte{}, aboveAll...), "above"
	case x < 9:
		if k := s.anyExistingKey(); k != nil {
			return k, "other-table"
		}
	}
	return s.genKey(t), "random"
}

func (s *seqRun) doRange() {
	t := s.pickTable()
	start, sm := s.bound(t)
	end, em := s.bound(t)
	switch s.r.Intn(8) {
	case 0: // single point
		end, em = append([]byte{}, start...), "same"
	case 1: // force inverted
		if bytes.Compare(start, end) < 0 {
			start, end = end, start
			sm, em = em, sm
		}
	case 2, 3, 4: // force ordered
		if bytes.Compare(start, end) > 0 {
			start, end = end, start
			sm, em = em, sm
		}
	}
	want := s.m.rng(t, start, end)
	shape := "ordered"
	if c := bytes.Compare(start, end); c > 0 {
		shape = "inverted"
	} else if c == 0 {
		shape = "point"
	}
	s.res.seen("range_shapes:"+s.be, fmt.Sprintf("%s/%s-%s/%s", shape, sm, em, sizeBucket(len(want))))
	s.begin("range", fmt.Sprintf("%s [%s,%s] %s %s-%s want=%d", tname(t), hexKey(start), hexKey(end), shape, sm, em, len(want)))
	got, err := s.st.GetRange(t, append([]byte{}, start...), append([]byte{}, end...))
	s.reads++
	ex := map[string]interface{}{"table": tname(t), "start": hexKey(start), "end": hexKey(end), "want_n": len(want), "got_n": len(got)}
	if err != nil {
		s.fail("GetRange", "error", fmt.Sprintf("GetRange returned %v", err), ex)
		return
	}
	gp := make([]pair, len(got))
	for i, kv := range got {
		gp[i] = pair{kv.Key, kv.Value}
	}
	if class, what := s.comparePairs(t, want, gp); class != "" {
		ex["diff"] = what
		s.fail("GetRange", class, fmt.Sprintf("GetRange(%s,[%s,%s]) %s: %s", tname(t), hexKey(start), hexKey(end), shape, what), ex)
	}
	s.res.count("range_entries_compared:"+s.be, int64(len(want)))
}

// comparePairs classifies the difference between the model's answer and the store's.
func (s *seqRun) comparePairs(t storage.Table, want, got []pair) (class, what string) {
	same := len(want) == len(got)
	if same {
		for i := range want {
			if !bytes.Equal(want[i].k, got[i].k) || !bytes.Equal(want[i].v, got[i].v) {
				same = false
				break
			}
		}
	}
	if same {
		return "", ""
	}
	wantSet := map[string][]byte{}
	for _, p := range want {
		wantSet[string(p.k)] = p.v
	}
	gotSet := map[string]int{}
	for _, p := range got {
		gotSet[string(p.k)]++
	}
	for _, p := range want {
		if gotSet[string(p.k)] == 0 {
			return "missing-keys", fmt.Sprintf("key %s expected but not returned (want %d entries, got %d)", hexKey(p.k), len(want), len(got))
		}
	}
	for _, p := range got {
		if gotSet[string(p.k)] > 1 {
			return "duplicate-keys", fmt.Sprintf("key %s returned %d times", hexKey(p.k), gotSet[string(p.k)])
		}
	}
	for _, p := range got {
		if _, ok := wantSet[string(p.k)]; !ok {
			if _, inTable := s.m.t[t][string(p.k)]; inTable {
				return "extra-keys-outside-bounds", fmt.Sprintf("key %s of this table returned although outside the requested bounds", hexKey(p.k))
			}
			return "foreign-keys", fmt.Sprintf("key %s returned, it was never written to table %s (want %d entries, got %d)", hexKey(p.k), tname(t), len(want), len(got))
		}
	}
	for i := range want {
		if !bytes.Equal(want[i].k, got[i].k) {
			return "wrong-order", fmt.Sprintf("position %d holds %s, want %s", i, hexKey(got[i].k), hexKey(want[i].k))
		}
	}
	for i := range want {
		if !bytes.Equal(want[i].v, got[i].v) {
			return "wrong-value", fmt.Sprintf("key %s carries %s, last written %s", hexKey(want[i].k), lib.Hex(got[i].v), lib.Hex(want[i].v))
		}
	}
	return "differs", "unclassified difference"
}

// scan reads the whole table through GetAll with the given buffer size, following the caller
// protocol of hyper.RebuildCache (Read until n == 0 or error), and always closes the reader.
func (s *seqRun) scan(t storage.Table, bufSize int) (got []pair, reads int, problem string) {
	total := 0
	for _, u := range c14Tables {
		total += len(s.m.t[u])
	}
	maxReads := total/bufSize + 8 // a reader of any table can never legitimately need more
	rd := s.st.GetAll(t)
	defer rd.Close()
	buf := make([]*storage.KVPair, bufSize)
	for {
		for i := range buf {
			buf[i] = nil
		}
		n, err := rd.Read(buf)
		reads++
		if err != nil {
			return got, reads, fmt.Sprintf("Read returned error %v", err)
		}
		if n < 0 || n > bufSize {
			return got, reads, fmt.Sprintf("Read returned n=%d for a buffer of %d", n, bufSize)
		}
		if n == 0 {
			break
		}
		for i := 0; i < n; i++ {
			if buf[i] == nil {
				return got, reads, fmt.Sprintf("Read returned n=%d but slot %d is nil", n, i)
			}
			got = append(got, pair{buf[i].Key, buf[i].Value})
		}
		if reads > maxReads {
			return got, reads, fmt.Sprintf("scan still returns entries after %d reads (store holds %d entries in total)", reads, total)
		}
	}
	// a drained reader stays drained
	n, err := rd.Read(buf)
	if err != nil || n != 0 {
		return got, reads, fmt.Sprintf("Read after the end of the scan returned n=%d err=%v", n, err)
	}
	return got, reads, ""
}

func (s *seqRun) doScan(audit bool) {
	t := s.pickTable()
	s.scanTable(t, s.r.Pick(1, 2, 100, 1000), audit)
}

func (s *seqRun) scanTable(t storage.Table, bufSize int, audit bool) {
	want := s.m.all(t)
	kind := "scan"
	if audit {
		kind = "audit_scan"
	}
	s.begin(kind, fmt.Sprintf("%s buf=%d want=%d", tname(t), bufSize, len(want)))
	got, reads, problem := s.scan(t, bufSize)
	s.reads++
	s.res.seen("scan_shapes:"+s.be, fmt.Sprintf("buf%d/%s", bufSize, sizeBucket(len(want))))
	s.res.count("scan_reads:"+s.be, int64(reads))
	s.res.count("scan_entries_compared:"+s.be, int64(len(want)))
	if reads > 2 {
		s.res.count("scans_spanning_several_buffers:"+s.be, 1)
	}
	ex := map[string]interface{}{"table": tname(t), "buffer": bufSize, "want_n": len(want), "got_n": len(got)}
	if problem != "" {
		ex["problem"] = problem
		s.fail("GetAll", "reader-protocol", fmt.Sprintf("GetAll(%s) buffer %d: %s", tname(t), bufSize, problem), ex)
		return
	}
	class, what := s.comparePairs(t, want, got)
	if class == "" {
		return
	}
	// One recognisable shape gets its own class: the scan returns the table correctly and then runs on
	// into the tables that follow it in the tree (entries of higher-prefixed tables, in tree order).
	// Anything else keeps the class comparePairs gave it.
	if len(got) > len(want) {
		ranOn := true
		for i := range want {
			if !bytes.Equal(want[i].k, got[i].k) || !bytes.Equal(want[i].v, got[i].v) {
				ranOn = false
				break
			}
		}
		if ranOn {
			// the tail must be a subsequence of the concatenation of the following tables
			var tail []pair
			for _, u := range c14Tables {
				if u.Prefix() > t.Prefix() {
					tail = append(tail, s.m.all(u)...)
				}
			}
			j := 0
			for _, p := range got[len(want):] {
				for j < len(tail) && !(bytes.Equal(tail[j].k, p.k) && bytes.Equal(tail[j].v, p.v)) {
					j++
				}
				if j == len(tail) {
					ranOn = false
					break
				}
				j++
			}
		}
		if ranOn {
			class = "leaks-following-table"
			what = fmt.Sprintf("the scan returned the %d entries of %s and then %d entries that belong to the tables after it (first leaked key %s)",
				len(want), tname(t), len(got)-len(want), hexKey(got[len(want)].k))
		}
	}
	ex["diff"] = what
	s.fail("GetAll", class, fmt.Sprintf("GetAll(%s) buffer %d: %s", tname(t), bufSize, what), ex)
}

func (s *seqRun) doLast() {
	t := s.pickTable()
	ks := s.m.keys(t)
	higherPopulated, lowerPopulated := false, false
	var highest storage.Table
	for _, u := range c14Tables {
		if len(s.m.t[u]) == 0 {
			continue
		}
		if u.Prefix() > t.Prefix() {
			higherPopulated = true
			highest = u
		} else if u.Prefix() < t.Prefix() {
			lowerPopulated = true
		}
	}
	ctx := fmt.Sprintf("own=%s/lower=%v/higher=%v", sizeBucket(len(ks)), lowerPopulated, higherPopulated)
	s.res.seen("getlast_contexts:"+s.be, ctx)
	s.begin("last", fmt.Sprintf("%s %s", tname(t), ctx))
	kv, err := s.st.GetLast(t)
	s.reads++
	ex := map[string]interface{}{"table": tname(t), "context": ctx}
	if kv != nil {
		ex["got_key"], ex["got_value"] = hexKey(kv.Key), lib.Hex(kv.Value)
	}
	if err != nil {
		ex["got_err"] = err.Error()
	}
	var wantK, wantV []byte
	if len(ks) > 0 {
		wantK = []byte(ks[len(ks)-1])
		wantV = s.m.t[t][ks[len(ks)-1]]
		ex["want_key"] = hexKey(wantK)
	}
	ok := false
	if len(ks) == 0 {
		ok = err == storage.ErrKeyNotFound
	} else {
		ok = err == nil && kv != nil && bytes.Equal(kv.Key, wantK) && bytes.Equal(kv.Value, wantV)
	}
	if ok {
		if higherPopulated {
			s.res.count("getlast_correct_with_higher_table_populated:"+s.be, 1)
		}
		return
	}
	// Scope: RocksDBStore.GetLast seeks backwards from 10 x 0xff (the history key layout). Keys that
	// sort above that are outside what it is specified for: the answer must then be the greatest
	// key <= the seek key; reported as information only.
	if s.be == "rocks" && len(ks) > 0 && bytes.Compare(wantK, rocksSeekKey) > 0 {
		i := sort.SearchStrings(ks, string(rocksSeekKey))
		// ks[i] is the first key >= seek key; an exact match is reachable by SeekForPrev
		var bk []byte
		if i < len(ks) && ks[i] == string(rocksSeekKey) {
			bk = []byte(ks[i])
		} else if i > 0 {
			bk = []byte(ks[i-1])
		}
		if (bk == nil && err == storage.ErrKeyNotFound) ||
			(bk != nil && err == nil && kv != nil && bytes.Equal(kv.Key, bk) && bytes.Equal(kv.Value, s.m.t[t][string(bk)])) {
			s.res.count("info:rocks_getlast_table_holds_keys_above_10xff_seek_key", 1)
			return
		}
	}
	class := "wrong-key"
	switch {
	case err != nil && err != storage.ErrKeyNotFound:
		class = "error"
	case len(ks) > 0 && err == storage.ErrKeyNotFound:
		class = "not-found-on-populated-table"
	case len(ks) == 0 && err == nil:
		class = "found-on-empty-table"
	case err == nil && kv != nil && bytes.Equal(kv.Key, wantK):
		class = "wrong-value"
	}
	// Known shape (bplus): the answer is the greatest entry of the highest populated table.
	if s.be == "bplus" && higherPopulated && err == nil && kv != nil {
		hk := s.m.keys(highest)
		top := hk[len(hk)-1]
		if bytes.Equal(kv.Key, []byte(top)) && bytes.Equal(kv.Value, s.m.t[highest][top]) {
			class = "higher-table-populated"
			ex["leaked_from"] = tname(highest)
		}
	}
	s.fail("GetLast", class, fmt.Sprintf("GetLast(%s) with %s returned key=%v err=%v, the model says key=%v",
		tname(t), ctx, ex["got_key"], err, ex["want_key"]), ex)
}

func (s *seqRun) doReopen() bool {
	s.begin("reopen", fmt.Sprintf("sizes=%v", s.sizes()))
	if err := s.st.Close(); err != nil {
		s.fail("Close", "error", fmt.Sprintf("Close returned %v", err), nil)
	}
	s.st = nil
	if err := s.open(); err != nil {
		s.fail("reopen", "open-error", fmt.Sprintf("the store cannot be reopened: %v", err), nil)
		return false
	}
	s.reopens++
	s.res.count("reopens:"+s.be, 1)
	// contents must have survived: audit every table
	for _, t := range c14Tables {
		s.scanTable(t, 100, true)
	}
	return true
}

func runSeqCase(cp casePlan, dir string, oplog *os.File) *caseResult {
	s := &seqRun{cp: cp, be: strings.TrimPrefix(cp.Kind, "seq:"), dir: dir, m: newKVModel(), r: lib.NewRand(cp.Seed),
		res: newResult(cp.ID), oplog: oplog}
	// which tables this case writes to (queries go to all five): every non-empty subset appears
	mask := s.r.Range(1, 1<<uint(len(c14Tables))-1)
	if s.r.Intn(3) == 0 {
		mask = 1<<uint(len(c14Tables)) - 1
	}
	var an []string
	for i, t := range c14Tables {
		if mask&(1<<uint(i)) != 0 {
			s.active = append(s.active, t)
			an = append(an, tname(t))
		}
	}
	switch x := s.r.Intn(100); {
	case x < 62:
		s.profile = "small"
	case x < 90:
		s.profile = "medium"
	default:
		s.profile = "large"
	}
	if err := s.open(); err != nil {
		s.res.Incon = append(s.res.Incon, fmt.Sprintf("cannot open %s store: %v", s.be, err))
		return s.res
	}
	alive := true
	for i := 0; i < cp.Ops && alive; i++ {
		if i == 0 && s.profile != "small" {
			n := s.r.Range(100, 400)
			if s.profile == "large" {
				n = s.r.Range(1000, 2500)
			}
			s.doMutate(n)
			continue
		}
		switch x := s.r.Intn(100); {
		case x < 28:
			s.doMutate(0)
		case x < 48:
			s.doGet()
		case x < 65:
			s.doRange()
		case x < 79:
			s.doScan(false)
		case x < 98:
			s.doLast()
		default:
			if s.be == "rocks" {
				alive = s.doReopen()
			} else {
				s.doGet()
			}
		}
	}
	if alive {
		// final audit: every table, every key
		for _, t := range c14Tables {
			s.scanTable(t, s.r.Pick(2, 100, 1000), true)
		}
		s.begin("close", "")
		if err := s.st.Close(); err != nil {
			s.fail("Close", "error", fmt.Sprintf("Close returned %v", err), nil)
		}
	}
	s.res.Sig = fmt.Sprintf("%s|%s|tables=%s|max=%s|reopens=%d", s.be, s.profile, strings.Join(an, "+"), sizeBucket(s.maxSize), minInt(s.reopens, 3))
	s.res.Nontrivial = s.writes >= 1 && s.reads >= 10
	s.res.Sample = map[string]interface{}{"id": cp.ID, "backend": s.be, "profile": s.profile, "tables_written": an,
		"final_sizes": s.sizes(), "reopens": s.reopens, "last_ops": s.recent}
	return s.res
}

func minInt(a, b int) int {
	if a < b {
		return a
	}
	return b
}

func init() {
	Workers["stores-c14"] = func(args []string) int {
		return workerMain(args, func(cp casePlan, dir string, oplog *os.File) *caseResult {
			if strings.HasPrefix(cp.Kind, "conc:") {
				return runConcCase(cp, dir, oplog)
			}
			return runSeqCase(cp, dir, oplog)
		})
	}
}

// RunC14 plans the cases from the seed and runs them in child processes.
func RunC14(c *lib.Ctx) {
	c.Rule = "case = one seeded sequence of 60 operations (Mutate batches spanning tables with overwrites and in-batch duplicate keys; " +
		"Get hit/miss; GetRange with bounds equal/near/below/above/inverted; GetAll with buffers 1,2,100,1000; GetLast; close/reopen for RocksDB) " +
		"against one back-end (bplus or rocks), every answer compared with a per-table sorted-map model; keys from the alphabet {00,01,7f,80,fe,ff} (len 1-40) " +
		"and the real history/hyper/fsm layouts; shape = back-end x size profile x set of tables written x largest table bucket x reopens. " +
		"Non-trivial = at least one non-empty batch and >= 10 checked reads. Annex (rocks): concurrent Mutate/Get histories, checked by a " +
		"version-monotonicity rule (single writer per key group) and by porcupine against a whole-map model (several writers)."
	c.Assume = []string{
		"empty keys are out of scope (no caller produces them; RocksDB and the prefix scheme disagree on them)",
		"RocksDBStore.GetLast is specified for tables whose keys sort at or below 10 x 0xff (history layout); tables holding longer all-0xff keys are counted as information",
		"nil and empty values are the same value",
		"a full scan follows the caller protocol of hyper.RebuildCache: Read until n == 0 or error, then Close",
		"RocksDB 7.8.3 (Debian) through /verif/native shim instead of the 6.x QED pinned",
	}
	nSeq := c.Q(300, 3000)
	ops := 60
	var cases []casePlan
	for _, be := range []string{"bplus", "rocks"} {
		r := c.Rand("c14-plan-" + be)
		for i := 0; i < nSeq; i++ {
			cases = append(cases, casePlan{ID: fmt.Sprintf("%s/%d", be, i), Kind: "seq:" + be, Seed: r.Uint64(), Ops: ops})
		}
	}
	rc := c.Rand("c14-plan-conc")
	nConc := c.Q(16, 160)
	for i := 0; i < nConc; i++ {
		cases = append(cases, casePlan{ID: fmt.Sprintf("mono/%d", i), Kind: "conc:mono", Seed: rc.Uint64(), Ops: c.Q(300, 400)})
		cases = append(cases, casePlan{ID: fmt.Sprintf("porc/%d", i), Kind: "conc:porc", Seed: rc.Uint64(), Ops: 14})
	}
	// cases are dealt round-robin, so every worker gets a similar mix of kinds
	runCases(c, "stores-c14", cases, 12, time.Duration(c.Q(10, 40))*time.Minute)
	if c.Only == "" {
		for _, be := range []string{"bplus", "rocks"} {
			for _, k := range []string{"mutate", "get_hit", "get_miss", "range", "scan", "last"} {
				if c.Counter("ops_checked:"+be+":"+k) == 0 {
					c.Inconclusive(fmt.Sprintf("no %s operation was checked on %s", k, be))
				}
			}
		}
		if c.Counter("reopens:rocks") == 0 {
			c.Inconclusive("no RocksDB close/reopen was exercised")
		}
		if c.Counter("concurrent_histories_checked") == 0 {
			c.Inconclusive("no concurrent history was checked")
		}
	}
}
