package stores

import (
	"encoding/binary"
	"fmt"
	"hash/crc32"
	"os"
	"sort"
	"sync"
	"sync/atomic"
	"time"

	"github.com/anishathalye/porcupine"
	"github.com/bbva/qed/storage"
	"github.com/bbva/qed/storage/rocks"

	"qedverif/lib"
)

// ---------------------------------------------------------------------------------------------
// C14 annex: batch atomicity / visibility of RocksDBStore under concurrent Mutate and Get.
//
// conc:mono  every key group has exactly one writer whose batch number v rewrites *all* keys of the
//            group with version v. Oracle (arithmetic on recorded events, no clock): a Get that starts
//            after batch `lo` completed and ends before batch `hi+1` started returns a version in
//            [lo, hi]; and a reader never sees versions go backwards across its own successive reads
//            of any keys of the group (it saw a batch's key => every key already carries that batch).
// conc:porc  several writers with overlapping key sets; recorded history (logical timestamps from one
//            atomic counter) checked by porcupine against a whole-map model where Mutate is one step.
// ---------------------------------------------------------------------------------------------

type concKey struct {
	t storage.Table
	k []byte
}

func concKeys(r *lib.Rand, group, n int) []concKey {
	out := make([]concKey, n)
	for i := range out {
		t := c14Tables[(group+i)%len(c14Tables)]
		if r.Intn(4) == 0 {
			t = c14Tables[r.Intn(len(c14Tables))]
		}
		// distinct per (group, i); leading bytes from the boundary alphabet
		k := []byte{alphabet[r.Intn(len(alphabet))], byte(group), byte(i)}
		if r.Bool() {
			k = append(k, alphabet[r.Intn(len(alphabet))])
		}
		out[i] = concKey{t, k}
	}
	return out
}

func encVersion(group, idx int, v uint64, pad int) []byte {
	b := make([]byte, 14+pad)
	b[0], b[1] = byte(group), byte(idx)
	binary.BigEndian.PutUint64(b[2:], v)
	binary.BigEndian.PutUint32(b[10:], crc32.ChecksumIEEE(b[:10]))
	return b
}

func decVersion(b []byte, group, idx int) (uint64, bool) {
	if len(b) < 14 || b[0] != byte(group) || b[1] != byte(idx) {
		return 0, false
	}
	if binary.BigEndian.Uint32(b[10:]) != crc32.ChecksumIEEE(b[:10]) {
		return 0, false
	}
	return binary.BigEndian.Uint64(b[2:]), true
}

type monoProblem struct {
	class string
	what  string
}

func runConcCase(cp casePlan, dir string, oplog *os.File) *caseResult {
	res := newResult(cp.ID)
	fmt.Fprintf(oplog, "%s 0 %s open\n", cp.ID, cp.Kind)
	st, err := rocks.NewRocksDBStore(dir, time.Duration(0))
	if err != nil {
		res.Incon = append(res.Incon, fmt.Sprintf("cannot open rocks store: %v", err))
		return res
	}
	fmt.Fprintf(oplog, "%s 1 %s run\n", cp.ID, cp.Kind)
	if cp.Kind == "conc:mono" {
		runMono(cp, st, res)
	} else {
		runPorc(cp, st, res)
	}
	fmt.Fprintf(oplog, "%s 2 %s close\n", cp.ID, cp.Kind)
	st.Close()
	return res
}

func runMono(cp casePlan, st *rocks.RocksDBStore, res *caseResult) {
	r := lib.NewRand(cp.Seed)
	groups := r.Range(2, 3)
	readersPer := 2
	batches := uint64(cp.Ops)
	type group struct {
		keys    []concKey
		started uint64 // batches whose Mutate has been called
		done    uint64 // batches whose Mutate has returned
		aborted uint32 // the writer gave up (Mutate error)
	}
	gs := make([]*group, groups)
	for g := range gs {
		gs[g] = &group{keys: concKeys(r, g, r.Range(2, 5))}
	}
	var mu sync.Mutex
	var problems []monoProblem
	report := func(class, what string) {
		mu.Lock()
		if len(problems) < 20 {
			problems = append(problems, monoProblem{class, what})
		}
		mu.Unlock()
	}
	var readsChecked, readsOverlapping, versionChanges int64
	start := make(chan struct{})
	var wg sync.WaitGroup
	for g := range gs {
		grp := gs[g]
		pad := r.Pick(0, 0, 50, 900)
		noise := r.Bool()
		wseed := r.Uint64()
		wg.Add(1)
		go func(g int) {
			defer wg.Done()
			wr := lib.NewRand(wseed)
			<-start
			for v := uint64(1); v <= batches; v++ {
				var muts []*storage.Mutation
				for i, k := range grp.keys {
					muts = append(muts, storage.NewMutation(k.t, k.k, encVersion(g, i, v, pad)))
					if noise && wr.Intn(3) == 0 {
						muts = append(muts, storage.NewMutation(c14Tables[wr.Intn(4)], []byte{0x7f, byte(g), byte(wr.Intn(8)), 0xee}, wr.Bytes(16)))
					}
				}
				atomic.StoreUint64(&grp.started, v)
				if err := st.Mutate(muts, nil); err != nil {
					report("Mutate-error", fmt.Sprintf("group %d batch %d: %v", g, v, err))
					atomic.StoreUint32(&grp.aborted, 1)
					return
				}
				atomic.StoreUint64(&grp.done, v)
			}
		}(g)
		for rd := 0; rd < readersPer; rd++ {
			rseed := r.Uint64()
			wg.Add(1)
			go func(g, rd int) {
				defer wg.Done()
				rr := lib.NewRand(rseed)
				<-start
				var floor uint64 // greatest version this reader has seen in this group
				var floorAt string
				var n, overl, changes int64
				defer func() {
					atomic.AddInt64(&readsChecked, n)
					atomic.AddInt64(&readsOverlapping, overl)
					atomic.AddInt64(&versionChanges, changes)
				}()
				for pass := 0; ; pass++ {
					finished := atomic.LoadUint64(&grp.done) == batches || atomic.LoadUint32(&grp.aborted) == 1
					order := rr.Perm(len(grp.keys))
					switch rr.Intn(3) {
					case 0:
						sort.Ints(order)
					case 1:
						sort.Sort(sort.Reverse(sort.IntSlice(order)))
					}
					for _, i := range order {
						k := grp.keys[i]
						lo := atomic.LoadUint64(&grp.done)
						kv, err := st.Get(k.t, k.k)
						hi := atomic.LoadUint64(&grp.started)
						var ver uint64
						if err == storage.ErrKeyNotFound {
							ver = 0
						} else if err != nil {
							report("Get-error", fmt.Sprintf("group %d key %d: %v", g, i, err))
							return
						} else {
							var ok bool
							ver, ok = decVersion(kv.Value, g, i)
							if !ok {
								report("torn-value", fmt.Sprintf("group %d key %d (%s/%s): value %s is not one that was written there", g, i, tname(k.t), hexKey(k.k), lib.Hex(kv.Value)))
								return
							}
						}
						n++
						if lo < hi {
							overl++
						}
						if ver < lo {
							report("stale-read-after-mutate-returned", fmt.Sprintf("group %d key %d: Get returned version %d although batch %d had completed before the Get started", g, i, ver, lo))
							return
						}
						if ver > hi {
							report("read-from-the-future", fmt.Sprintf("group %d key %d: Get returned version %d, only %d batches had been started", g, i, ver, hi))
							return
						}
						if ver < floor {
							report("batch-not-atomic", fmt.Sprintf("group %d reader %d: saw version %d at %s, then version %d at key %d (%s/%s): batch %d was only partially visible",
								g, rd, floor, floorAt, ver, i, tname(k.t), hexKey(k.k), floor))
							return
						}
						if ver > floor {
							if floor != 0 {
								changes++
							}
							floor = ver
							floorAt = fmt.Sprintf("key %d (%s/%s)", i, tname(k.t), hexKey(k.k))
						}
					}
					if finished {
						break
					}
				}
			}(g, rd)
		}
	}
	close(start)
	wg.Wait()
	// quiescent: every key carries the last batch
	for g, grp := range gs {
		for i, k := range grp.keys {
			kv, err := st.Get(k.t, k.k)
			if err != nil {
				report("final-state", fmt.Sprintf("group %d key %d missing after all batches: %v", g, i, err))
				continue
			}
			if v, ok := decVersion(kv.Value, g, i); !ok || v != batches {
				report("final-state", fmt.Sprintf("group %d key %d carries version %d after %d batches", g, i, v, batches))
			}
		}
	}
	res.count("concurrent_histories_checked", 1)
	res.count("conc_mono_histories", 1)
	res.count("conc_mono_reads_checked", readsChecked)
	res.count("conc_mono_reads_overlapping_a_mutate", readsOverlapping)
	res.count("conc_mono_version_changes_observed_by_readers", versionChanges)
	res.count("conc_mono_batches", int64(groups)*int64(batches))
	for _, p := range problems {
		res.violation("C14:rocks:concurrent:"+p.class, fmt.Sprintf("case %s: %s", cp.ID, p.what),
			map[string]interface{}{"case": cp, "problem": p.what, "groups": groups})
	}
	res.Sig = fmt.Sprintf("conc:mono|groups=%d|overlap=%v|changes=%v", groups, readsOverlapping > 0, versionChanges > 10)
	// the case says something about atomicity only if readers really raced with writers
	res.Nontrivial = readsOverlapping > 0 && versionChanges > 0
	if !res.Nontrivial {
		res.count("conc_mono_histories_without_observed_overlap", 1)
	}
}

// ---------- porcupine flavour ----------

const porcKeys = 6

type porcIn struct {
	Mutate bool
	Keys   []int   // key indexes written (in batch order) or the single key read
	Vals   []int32 // value ids written
}

type porcState [porcKeys]int32

var porcModel = porcupine.Model{
	Init: func() interface{} { return porcState{} },
	Step: func(state, input, output interface{}) (bool, interface{}) {
		s := state.(porcState)
		in := input.(porcIn)
		if in.Mutate {
			for i, k := range in.Keys {
				s[k] = in.Vals[i]
			}
			return true, s
		}
		return s[in.Keys[0]] == output.(int32), s
	},
	DescribeOperation: func(input, output interface{}) string {
		in := input.(porcIn)
		if in.Mutate {
			return fmt.Sprintf("mutate(keys=%v vals=%v)", in.Keys, in.Vals)
		}
		return fmt.Sprintf("get(%d) -> %d", in.Keys[0], output.(int32))
	},
}

func runPorc(cp casePlan, st *rocks.RocksDBStore, res *caseResult) {
	r := lib.NewRand(cp.Seed)
	keys := concKeys(r, 9, porcKeys)
	writers, readers := 3, 3
	perWriter := cp.Ops
	perReader := cp.Ops * 2
	var clock int64
	var mu sync.Mutex
	var ops []porcupine.Operation
	var problems []string
	start := make(chan struct{})
	var wg sync.WaitGroup
	for w := 0; w < writers; w++ {
		seed := r.Uint64()
		wg.Add(1)
		go func(w int) {
			defer wg.Done()
			wr := lib.NewRand(seed)
			var local []porcupine.Operation
			<-start
			for j := 0; j < perWriter; j++ {
				n := wr.Range(1, 3)
				perm := wr.Perm(porcKeys)[:n]
				in := porcIn{Mutate: true}
				var muts []*storage.Mutation
				for x, ki := range perm {
					id := int32((w+1)*100000 + j*10 + x + 1)
					in.Keys = append(in.Keys, ki)
					in.Vals = append(in.Vals, id)
					v := make([]byte, 4)
					binary.BigEndian.PutUint32(v, uint32(id))
					muts = append(muts, storage.NewMutation(keys[ki].t, keys[ki].k, v))
				}
				call := atomic.AddInt64(&clock, 1)
				err := st.Mutate(muts, nil)
				ret := atomic.AddInt64(&clock, 1)
				if err != nil {
					mu.Lock()
					problems = append(problems, fmt.Sprintf("Mutate: %v", err))
					mu.Unlock()
					return
				}
				local = append(local, porcupine.Operation{ClientId: w, Input: in, Call: call, Output: int32(0), Return: ret})
			}
			mu.Lock()
			ops = append(ops, local...)
			mu.Unlock()
		}(w)
	}
	for rd := 0; rd < readers; rd++ {
		seed := r.Uint64()
		wg.Add(1)
		go func(rd int) {
			defer wg.Done()
			rr := lib.NewRand(seed)
			var local []porcupine.Operation
			<-start
			for j := 0; j < perReader; j++ {
				ki := rr.Intn(porcKeys)
				call := atomic.AddInt64(&clock, 1)
				kv, err := st.Get(keys[ki].t, keys[ki].k)
				ret := atomic.AddInt64(&clock, 1)
				var out int32
				if err == nil && len(kv.Value) == 4 {
					out = int32(binary.BigEndian.Uint32(kv.Value))
				} else if err != storage.ErrKeyNotFound {
					mu.Lock()
					problems = append(problems, fmt.Sprintf("Get key %d: err=%v", ki, err))
					mu.Unlock()
					return
				}
				local = append(local, porcupine.Operation{ClientId: writers + rd, Input: porcIn{Keys: []int{ki}}, Call: call, Output: out, Return: ret})
			}
			mu.Lock()
			ops = append(ops, local...)
			mu.Unlock()
		}(rd)
	}
	close(start)
	wg.Wait()
	res.count("concurrent_histories_checked", 1)
	res.count("conc_porcupine_histories", 1)
	res.count("conc_porcupine_operations", int64(len(ops)))
	for _, p := range problems {
		res.violation("C14:rocks:concurrent:operation-error", fmt.Sprintf("case %s: %s", cp.ID, p), map[string]interface{}{"case": cp})
	}
	// how concurrent was it: operations whose interval overlaps another client's
	sort.Slice(ops, func(i, j int) bool { return ops[i].Call < ops[j].Call })
	overlaps := 0
	for i := 1; i < len(ops); i++ {
		if ops[i].Call < ops[i-1].Return {
			overlaps++
		}
	}
	res.count("conc_porcupine_overlapping_operation_pairs", int64(overlaps))
	// the timeout is a watchdog for the checker only; its firing is inconclusive
	verdict, _ := porcupine.CheckOperationsVerbose(porcModel, ops, 90*time.Second)
	switch verdict {
	case porcupine.Ok:
		res.count("conc_porcupine_linearizable", 1)
	case porcupine.Unknown:
		res.Incon = append(res.Incon, "porcupine did not finish within its watchdog")
	case porcupine.Illegal:
		var hist []string
		for _, o := range ops {
			hist = append(hist, fmt.Sprintf("c%d [%d,%d] %s", o.ClientId, o.Call, o.Return, porcModel.DescribeOperation(o.Input, o.Output)))
		}
		res.violation("C14:rocks:concurrent:not-linearizable", fmt.Sprintf("case %s: the recorded Mutate/Get history has no linearization in which every batch is one atomic step", cp.ID),
			map[string]interface{}{"case": cp, "history": hist})
	}
	res.Sig = fmt.Sprintf("conc:porc|overlap=%s", sizeBucket(overlaps))
	res.Nontrivial = overlaps > 0 && verdict != porcupine.Unknown
}
