// Package stores holds the runtime monitors of C14 (storage back-ends behave as atomic, ordered,
// per-table maps) and C15 (the replicated-log store returns exactly what consensus stored).
//
// Both checks are model-based differential tests: the real store is driven with seeded operation
// sequences inside child processes (RocksDB aborts the process on misuse, so nothing that touches
// it runs in the supervisor) while a plain Go map model, which never looks at the store, predicts
// every answer.
package stores

import (
	"bufio"
	"encoding/json"
	"fmt"
	"io/ioutil"
	"os"
	"os/exec"
	"path/filepath"
	"strconv"
	"strings"
	"sync"
	"time"

	"qedverif/lib"
)

// Workers are child-process entry points (qv worker <name> args...).
var Workers = map[string]func(args []string) int{}

// casePlan is one seeded case handed to a worker. Everything a case does derives from Seed.
type casePlan struct {
	ID   string `json:"id"`
	Kind string `json:"kind"` // seq:bplus | seq:rocks | conc:mono | conc:porc | raftlog:mixed | raftlog:raft
	Seed uint64 `json:"seed"`
	Ops  int    `json:"ops"`
}

type workerPlan struct {
	Prop  string     `json:"prop"`
	Dir   string     `json:"dir"` // scratch directory of this worker (databases live below it)
	Cases []casePlan `json:"cases"`
}

type violationRec struct {
	Key    string                 `json:"key"`
	What   string                 `json:"what"`
	Detail map[string]interface{} `json:"detail"`
}

// caseResult is what a worker reports for one case (one JSON line).
type caseResult struct {
	ID         string              `json:"id"`
	Sig        string              `json:"sig"`
	Nontrivial bool                `json:"nontrivial"`
	Counts     map[string]int64    `json:"counts"`
	Seen       map[string][]string `json:"seen"`
	Viol       []violationRec      `json:"viol"`
	Incon      []string            `json:"incon"`
	Sample     interface{}         `json:"sample,omitempty"`

	seenSet map[string]map[string]bool
	violKey map[string]bool
}

func newResult(id string) *caseResult {
	return &caseResult{ID: id, Counts: map[string]int64{}, Seen: map[string][]string{},
		seenSet: map[string]map[string]bool{}, violKey: map[string]bool{}}
}

func (r *caseResult) count(name string, n int64) { r.Counts[name] += n }

func (r *caseResult) seen(set, member string) {
	m := r.seenSet[set]
	if m == nil {
		m = map[string]bool{}
		r.seenSet[set] = m
	}
	if !m[member] {
		m[member] = true
		r.Seen[set] = append(r.Seen[set], member)
	}
}

// violation keeps the first witness per key and per case.
func (r *caseResult) violation(key, what string, detail map[string]interface{}) {
	r.count("mismatches:"+key, 1)
	if r.violKey[key] {
		return
	}
	r.violKey[key] = true
	if detail == nil {
		detail = map[string]interface{}{}
	}
	detail["id"] = r.ID
	r.Viol = append(r.Viol, violationRec{Key: key, What: what, Detail: detail})
}

// ---------- worker side ----------

type caseRunner func(cp casePlan, dir string, oplog *os.File) *caseResult

// workerMain reads the plan, runs every case through run, and appends one JSON line per case.
func workerMain(args []string, run caseRunner) int {
	if len(args) < 3 {
		fmt.Fprintln(os.Stderr, "usage: worker <name> plan.json out.jsonl ops.log")
		return 2
	}
	buf, err := ioutil.ReadFile(args[0])
	if err != nil {
		fmt.Fprintln(os.Stderr, err)
		return 2
	}
	var plan workerPlan
	if err := json.Unmarshal(buf, &plan); err != nil {
		fmt.Fprintln(os.Stderr, err)
		return 2
	}
	out, err := os.OpenFile(args[1], os.O_CREATE|os.O_WRONLY|os.O_APPEND, 0644)
	if err != nil {
		fmt.Fprintln(os.Stderr, err)
		return 2
	}
	defer out.Close()
	oplog, err := os.OpenFile(args[2], os.O_CREATE|os.O_WRONLY|os.O_TRUNC, 0644)
	if err != nil {
		fmt.Fprintln(os.Stderr, err)
		return 2
	}
	defer oplog.Close()
	for i, cp := range plan.Cases {
		dir := filepath.Join(plan.Dir, fmt.Sprintf("db-%d", i))
		os.RemoveAll(dir)
		os.MkdirAll(dir, 0755)
		fmt.Fprintf(oplog, "CASE %s kind=%s seed=%d ops=%d\n", cp.ID, cp.Kind, cp.Seed, cp.Ops)
		var res *caseResult
		panicked, msg := lib.Recover(func() { res = run(cp, dir, oplog) })
		if panicked {
			// A Go panic escaping the code under test: the op log names the operation.
			res = newResult(cp.ID)
			res.violation(plan.Prop+":"+cp.Kind+":go-panic", "panic while running case "+cp.ID+": "+msg,
				map[string]interface{}{"case": cp, "panic": msg})
		}
		line, err := json.Marshal(res)
		if err != nil {
			fmt.Fprintln(os.Stderr, "marshal:", err)
			return 2
		}
		out.Write(append(line, '\n'))
		os.RemoveAll(dir)
	}
	return 0
}

// ---------- supervisor side ----------

func qvBin() string {
	if b := os.Getenv("QV_BIN"); b != "" {
		return b
	}
	b, _ := os.Executable()
	return b
}

func tailOf(path string, n int) string {
	buf, err := ioutil.ReadFile(path)
	if err != nil {
		return ""
	}
	if len(buf) > n {
		buf = buf[len(buf)-n:]
	}
	return string(buf)
}

func lastLine(path string) string {
	t := strings.TrimRight(tailOf(path, 4096), "\n")
	if i := strings.LastIndex(t, "\n"); i >= 0 {
		return t[i+1:]
	}
	return t
}

func readResults(path string) map[string]*caseResult {
	out := map[string]*caseResult{}
	f, err := os.Open(path)
	if err != nil {
		return out
	}
	defer f.Close()
	sc := bufio.NewScanner(f)
	sc.Buffer(make([]byte, 1<<20), 1<<28)
	for sc.Scan() {
		var r caseResult
		if json.Unmarshal(sc.Bytes(), &r) == nil && r.ID != "" {
			rr := r
			out[r.ID] = &rr
		}
	}
	return out
}

// runCases distributes cases over up to `par` child processes (worker `name`), collects the
// per-case results into c, and turns a dying child into a violation of the case it was running.
// perWorkerTimeout is a generous watchdog; when it fires the remaining cases are inconclusive.
func runCases(c *lib.Ctx, name string, cases []casePlan, par int, perWorkerTimeout time.Duration) {
	if c.Only != "" {
		var sel []casePlan
		for _, cp := range cases {
			if cp.ID == c.Only {
				sel = append(sel, cp)
			}
		}
		cases = sel
	}
	if len(cases) == 0 {
		return
	}
	if v, err := strconv.Atoi(os.Getenv("QV_STORES_PAR")); err == nil && v > 0 {
		par = v // tuning knob for slow or shared machines; results do not depend on it
	}
	if par > len(cases) {
		par = len(cases)
	}
	chunks := make([][]casePlan, par)
	for i, cp := range cases {
		chunks[i%par] = append(chunks[i%par], cp)
	}
	var wg sync.WaitGroup
	var sampleMu sync.Mutex
	samples := 0
	for k := range chunks {
		wg.Add(1)
		go func(k int, todo []casePlan) {
			defer wg.Done()
			for attempt := 0; len(todo) > 0; attempt++ {
				dir := c.Dir(fmt.Sprintf("%s-w%d-a%d", name, k, attempt))
				planPath := filepath.Join(dir, "plan.json")
				outPath := filepath.Join(dir, "out.jsonl")
				logPath := filepath.Join(dir, "ops.log")
				errPath := filepath.Join(dir, "stderr.txt")
				buf, _ := json.Marshal(workerPlan{Prop: c.Prop, Dir: dir, Cases: todo})
				ioutil.WriteFile(planPath, buf, 0644)
				cmd := exec.Command(qvBin(), "worker", name, planPath, outPath, logPath)
				ioutil.WriteFile(filepath.Join(dir, "cmd.txt"), []byte(strings.Join(cmd.Args, " ")+"\n"), 0644)
				ef, _ := os.Create(errPath)
				cmd.Stderr = ef
				cmd.Stdout = ef
				timedOut := false
				var tmu sync.Mutex
				if err := cmd.Start(); err != nil {
					ef.Close()
					c.Inconclusive(fmt.Sprintf("%s: cannot start worker: %v", name, err))
					return
				}
				timer := time.AfterFunc(perWorkerTimeout, func() {
					tmu.Lock()
					timedOut = true
					tmu.Unlock()
					cmd.Process.Kill()
				})
				werr := cmd.Wait()
				timer.Stop()
				ef.Close()
				results := readResults(outPath)
				var rest []casePlan
				for _, cp := range todo {
					r, ok := results[cp.ID]
					if !ok {
						rest = append(rest, cp)
						continue
					}
					c.Case(r.Sig, r.Nontrivial)
					for n, v := range r.Counts {
						c.Count(n, v)
					}
					for set, ms := range r.Seen {
						for _, m := range ms {
							c.Seen(set, m)
						}
					}
					for _, v := range r.Viol {
						c.Violation(v.Key, v.What, v.Detail)
					}
					for _, s := range r.Incon {
						c.Inconclusive(cp.ID + ": " + s)
					}
					if r.Sample != nil {
						sampleMu.Lock()
						if samples < 6 {
							samples++
							c.Sample(r.Sample)
						}
						sampleMu.Unlock()
					}
				}
				tmu.Lock()
				to := timedOut
				tmu.Unlock()
				if len(rest) == 0 {
					if werr != nil {
						c.Inconclusive(fmt.Sprintf("%s worker %d exited with %v after reporting all its cases; stderr tail: %q", name, k, werr, tailOf(errPath, 600)))
					}
					return
				}
				if to {
					c.Inconclusive(fmt.Sprintf("%s worker %d: watchdog (%v) fired while running case %s; %d cases not evaluated", name, k, perWorkerTimeout, rest[0].ID, len(rest)))
					return
				}
				// The child died (abort in C++, os.Exit, fatal signal) while running rest[0].
				culprit := rest[0]
				last := lastLine(logPath)
				opKind := "unknown"
				if f := strings.Fields(last); len(f) >= 3 {
					opKind = f[2]
				}
				c.Case("process-died|"+culprit.Kind, true)
				c.Violation(fmt.Sprintf("%s:%s:process-died:%s", c.Prop, culprit.Kind, opKind),
					fmt.Sprintf("the process running case %s died (%v) during: %s", culprit.ID, werr, last),
					map[string]interface{}{"id": culprit.ID, "case": culprit, "last_op": last,
						"ops_tail": tailOf(logPath, 3000), "stderr_tail": tailOf(errPath, 3000)})
				todo = rest[1:]
			}
		}(k, chunks[k])
	}
	wg.Wait()
}

func hexKey(b []byte) string { return lib.HexFull(b) }
