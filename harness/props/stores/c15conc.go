package stores

// C15 concurrency annex. hashicorp/raft calls its LogStore from several goroutines: the leader loop appends
// (StoreLogs) while one replication goroutine per follower reads older entries (GetLog), and the snapshot
// goroutine compacts a prefix (DeleteRange). "Returns, for every index, the entry last stored there" has to
// hold for those callers too. One appender, three readers and a compactor run against the real store;
// every entry is a function of its index, so a read identifies what it got.

import (
	"bytes"
	"encoding/binary"
	"fmt"
	"runtime"
	"sync"
	"sync/atomic"
	"time"

	"github.com/hashicorp/raft"

	"qedverif/lib"
)

func c15concEntry(idx uint64) raft.Log {
	d := make([]byte, 8+int(idx%29))
	binary.BigEndian.PutUint64(d, idx*0x9e3779b97f4a7c15)
	for i := 8; i < len(d); i++ {
		d[i] = byte(idx + uint64(i))
	}
	return raft.Log{Index: idx, Term: idx/64 + 1, Type: raft.LogType(idx % 4), Data: d}
}

func c15concSame(a, b raft.Log) bool {
	return a.Index == b.Index && a.Term == b.Term && a.Type == b.Type && bytes.Equal(a.Data, b.Data)
}

func (s *logRun) runConcurrent() {
	total := uint64(s.cp.Ops) // number of entries appended
	base := s.base
	var stored uint64    // highest index whose StoreLogs call has returned (0 = none)
	var compacted uint64 // every index <= compacted may have been removed
	atomic.StoreUint64(&compacted, base-1)
	var wrong, notFound, otherErr, readsOK, compactions int64
	var firstWrong atomic.Value
	stop := make(chan struct{})
	var wg sync.WaitGroup
	// readers
	for g := 0; g < 3; g++ {
		wg.Add(1)
		go func(g int) {
			defer wg.Done()
			r := lib.NewRand(s.cp.Seed + uint64(g) + 1)
			for {
				select {
				case <-stop:
					return
				default:
				}
				hi := atomic.LoadUint64(&stored)
				lo := atomic.LoadUint64(&compacted) + 1 + 64 // stay clear of the prefix being compacted
				if hi == 0 || lo > hi {
					runtime.Gosched()
					continue
				}
				idx := lo + r.Uint64()%(hi-lo+1)
				if r.Intn(3) == 0 && hi-lo > 8 {
					idx = hi - r.Uint64()%8 // the newest entries: the ones being written around now
				}
				var got raft.Log
				err := s.st.GetLog(idx, &got)
				switch {
				case err == raft.ErrLogNotFound && idx <= atomic.LoadUint64(&compacted):
					// the compactor moved past this index after it was picked ("compacted" is advanced before the
					// DeleteRange call, so a removed index is always at or below it)
				case err == raft.ErrLogNotFound:
					atomic.AddInt64(&notFound, 1)
					firstWrong.CompareAndSwap(nil, fmt.Sprintf("GetLog(%d) answered 'log not found' although StoreLogs had returned for every index up to %d (compacted up to %d)", idx, hi, atomic.LoadUint64(&compacted)))
				case err != nil:
					atomic.AddInt64(&otherErr, 1)
					firstWrong.CompareAndSwap(nil, fmt.Sprintf("GetLog(%d) failed: %v", idx, err))
				case !c15concSame(got, c15concEntry(idx)):
					atomic.AddInt64(&wrong, 1)
					firstWrong.CompareAndSwap(nil, fmt.Sprintf("GetLog(%d) returned the entry with index %d term %d (%d data bytes) instead of the one stored there", idx, got.Index, got.Term, len(got.Data)))
				default:
					atomic.AddInt64(&readsOK, 1)
				}
			}
		}(g)
	}
	// compactor: removes a prefix now and then, always well behind the appender
	wg.Add(1)
	go func() {
		defer wg.Done()
		for {
			select {
			case <-stop:
				return
			default:
			}
			hi := atomic.LoadUint64(&stored)
			c := atomic.LoadUint64(&compacted)
			if hi > c+1500 {
				upto := c + 500
				atomic.StoreUint64(&compacted, upto)
				if err := s.st.DeleteRange(c+1, upto); err != nil {
					atomic.AddInt64(&otherErr, 1)
					firstWrong.CompareAndSwap(nil, fmt.Sprintf("DeleteRange(%d,%d) failed: %v", c+1, upto, err))
				}
				atomic.AddInt64(&compactions, 1)
			} else {
				time.Sleep(200 * time.Microsecond)
			}
		}
	}()
	// appender (this goroutine)
	r := lib.NewRand(s.cp.Seed)
	next := base
	var appendErr error
	for next < base+total {
		k := uint64(r.Pick(1, 1, 2, 4, 4, 9))
		if next+k > base+total {
			k = base + total - next
		}
		if k == 1 && r.Bool() {
			e := c15concEntry(next)
			appendErr = s.st.StoreLog(&e)
		} else {
			ls := make([]*raft.Log, k)
			for i := range ls {
				e := c15concEntry(next + uint64(i))
				ls[i] = &e
			}
			appendErr = s.st.StoreLogs(ls)
		}
		if appendErr != nil {
			break
		}
		next += k
		atomic.StoreUint64(&stored, next-1)
	}
	close(stop)
	wg.Wait()
	s.stores += int(next - base)
	s.reads += int(atomic.LoadInt64(&readsOK))
	s.res.count("concurrent_reads_checked", atomic.LoadInt64(&readsOK)+atomic.LoadInt64(&wrong)+atomic.LoadInt64(&notFound))
	s.res.count("concurrent_entries_appended", int64(next-base))
	s.res.count("concurrent_compactions", atomic.LoadInt64(&compactions))
	s.maxLogs = int(next - base)
	detail := map[string]interface{}{"wrong_entry": wrong, "not_found": notFound, "errors": otherErr, "reads_ok": readsOK}
	if appendErr != nil {
		s.fail("concurrent", "append-failed", fmt.Sprintf("append at index %d failed while readers were active: %v", next, appendErr), detail)
		return
	}
	if w, _ := firstWrong.Load().(string); w != "" {
		class := "GetLog-wrong-entry"
		if wrong == 0 && notFound > 0 {
			class = "GetLog-not-found"
		} else if wrong == 0 {
			class = "error"
		}
		s.fail("concurrent", class, fmt.Sprintf("with one appender, three readers and a compactor on the same store: %s (%d wrong entries, %d not-found, %d errors, %d correct reads)", w, wrong, notFound, otherErr, readsOK), detail)
		return
	}
	// quiescent audit: what the concurrent phase left behind
	c := atomic.LoadUint64(&compacted)
	s.begin("concurrent_audit", fmt.Sprintf("entries=%d compacted<=%d", next-base, c))
	bad := 0
	var firstBad string
	for idx := c + 1; idx < next; idx++ {
		var got raft.Log
		if err := s.st.GetLog(idx, &got); err != nil || !c15concSame(got, c15concEntry(idx)) {
			bad++
			if firstBad == "" {
				firstBad = fmt.Sprintf("GetLog(%d): err=%v index=%d term=%d", idx, err, got.Index, got.Term)
			}
		}
	}
	for idx := base; idx <= c; idx += 97 {
		var got raft.Log
		if err := s.st.GetLog(idx, &got); err != raft.ErrLogNotFound {
			bad++
			if firstBad == "" {
				firstBad = fmt.Sprintf("GetLog(%d) in the removed prefix: err=%v index=%d", idx, err, got.Index)
			}
		}
	}
	fi, e1 := s.st.FirstIndex()
	li, e2 := s.st.LastIndex()
	if e1 != nil || e2 != nil || fi != c+1 || li != next-1 {
		bad++
		if firstBad == "" {
			firstBad = fmt.Sprintf("FirstIndex=%d (%v) LastIndex=%d (%v), expected %d and %d", fi, e1, li, e2, c+1, next-1)
		}
	}
	if bad > 0 {
		s.fail("concurrent", "final-audit", fmt.Sprintf("after the concurrent phase (quiescent store) %d answers are wrong, first: %s", bad, firstBad), detail)
	}
}
