package stores

import "qedverif/lib"

// Workers are child-process entry points (qv worker <name> args...).
var Workers = map[string]func(args []string) int{}

func RunC14(c *lib.Ctx) { c.Inconclusive("C14: check not built yet") }

func RunC15(c *lib.Ctx) { c.Inconclusive("C15: check not built yet") }
