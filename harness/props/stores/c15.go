package stores

import (
	"bytes"
	"fmt"
	"os"
	"sort"
	"strings"
	"time"

	"github.com/bbva/qed/consensus"
	"github.com/hashicorp/raft"

	"qedverif/lib"
)

// ---------------------------------------------------------------------------------------------
// C15: the replicated-log store returns exactly what consensus stored.
//
// Oracle: map index -> raft.Log (deep copies of what was handed to StoreLog/StoreLogs, minus what
// DeleteRange was asked to remove) plus a key/value map for the stable store. The model never reads
// the store. After every mutating call the neighbourhood of the touched indexes is read back, so a
// divergence is attributed to the call that caused it; after every reopen and at the end of a case
// everything is read back.
// ---------------------------------------------------------------------------------------------

const maxU64 = ^uint64(0)

type kvEntry struct {
	isU64 bool
	b     []byte
	u     uint64
}

type logRun struct {
	cp      casePlan
	dir     string
	st      consensus.VerifRaftLog
	logs    map[uint64]raft.Log
	kv      map[string]kvEntry
	r       *lib.Rand
	res     *caseResult
	oplog   *os.File
	opIdx   int
	recent  []string
	prev    string
	base    uint64
	reopens int
	bigData int
	stores  int
	reads   int
	maxLogs int
	dead    bool
}

func (s *logRun) begin(kind, desc string) {
	fmt.Fprintf(s.oplog, "%s %d %s %s\n", s.cp.ID, s.opIdx, kind, desc)
	s.recent = append(s.recent, fmt.Sprintf("%d %s %s", s.opIdx, kind, desc))
	if len(s.recent) > 16 {
		s.recent = s.recent[1:]
	}
	s.res.count("ops_checked:"+kind, 1)
	if s.prev != "" {
		s.res.seen("op_bigrams", s.prev+">"+kind)
	}
	s.prev = kind
	s.opIdx++
}

func (s *logRun) fail(op, class, what string, extra map[string]interface{}) {
	d := map[string]interface{}{"case": s.cp, "op_index": s.opIdx - 1, "recent_ops": append([]string{}, s.recent...), "entries_in_model": len(s.logs)}
	for k, v := range extra {
		d[k] = v
	}
	s.res.violation(fmt.Sprintf("C15:%s:%s", op, class), fmt.Sprintf("case %s op %d: %s", s.cp.ID, s.opIdx-1, what), d)
	// model and store have diverged: anything observed later in this case would only echo this
	// divergence under other names, so the case ends here (other cases keep looking).
	s.dead = true
}

func (s *logRun) open() error {
	st, err := consensus.VerifNewRaftLog(s.dir)
	if err != nil {
		return err
	}
	s.st = st
	return nil
}

func (s *logRun) sortedIdx() []uint64 {
	out := make([]uint64, 0, len(s.logs))
	for i := range s.logs {
		out = append(out, i)
	}
	sort.Slice(out, func(a, b int) bool { return out[a] < out[b] })
	return out
}

var absIdx = []uint64{0, 1, 2, 255, 256, 65535, 65536, 1<<32 - 1, 1 << 32, 1 << 56, 1<<63 - 1, 1 << 63, maxU64 - 1, maxU64}
var termVals = []uint64{0, 1, 2, 3, 255, 256, 1<<32 - 1, 1 << 32, 1<<63 - 1, 1 << 63, maxU64 - 1, maxU64}

func (s *logRun) genIndex() uint64 {
	switch x := s.r.Intn(20); {
	case x < 14:
		return s.base + uint64(s.r.Intn(50))
	case x < 17:
		if ix := s.sortedIdx(); len(ix) > 0 {
			return ix[s.r.Intn(len(ix))]
		}
	case x < 18:
		return s.r.Uint64()
	}
	return absIdx[s.r.Intn(len(absIdx))]
}

func (s *logRun) genLog(idx uint64) raft.Log {
	l := raft.Log{Index: idx}
	if s.r.Intn(3) == 0 {
		l.Term = termVals[s.r.Intn(len(termVals))]
	} else {
		l.Term = uint64(s.r.Intn(6))
	}
	if s.r.Intn(8) == 0 {
		l.Type = raft.LogType(s.r.Pick(6, 7, 127, 128, 254, 255)) // not a named type, still a legal uint8
	} else {
		l.Type = raft.LogType(s.r.Intn(6)) // LogCommand .. LogConfiguration
	}
	switch x := s.r.Intn(100); {
	case x < 8:
		l.Data = nil
	case x < 16:
		l.Data = []byte{}
	case x < 75:
		l.Data = s.r.Bytes(s.r.Range(1, 64))
	case x < 90:
		l.Data = s.r.Bytes(s.r.Range(200, 5000))
	case x < 97:
		l.Data = s.r.Bytes(s.r.Range(30000, 70000))
	default:
		if s.bigData < 2 {
			s.bigData++
			l.Data = s.r.Bytes(1 << 20)
			s.res.count("logs_with_1MB_data", 1)
		} else {
			l.Data = s.r.Bytes(17)
		}
	}
	switch x := s.r.Intn(100); {
	case x < 50:
		l.Extensions = nil
	case x < 60:
		l.Extensions = []byte{}
	case x < 95:
		l.Extensions = s.r.Bytes(s.r.Range(1, 40))
	default:
		l.Extensions = s.r.Bytes(4096)
	}
	s.res.seen("log_types_stored", fmt.Sprintf("%d", l.Type))
	return l
}

func cloneLog(l raft.Log) raft.Log {
	c := l
	c.Data = cloneVal(l.Data)
	c.Extensions = cloneVal(l.Extensions)
	return c
}

func describeLog(l raft.Log) string {
	return fmt.Sprintf("{idx=%d term=%d type=%d data=%d/%s ext=%d/%s}", l.Index, l.Term, l.Type, len(l.Data), lib.Hex(l.Data), len(l.Extensions), lib.Hex(l.Extensions))
}

// checkGet reads index idx back and compares it with the model. op names the call being audited.
func (s *logRun) checkGet(idx uint64, op string) {
	want, present := s.logs[idx]
	var got raft.Log
	err := s.st.GetLog(idx, &got)
	s.reads++
	ex := map[string]interface{}{"index": idx, "audited_call": op}
	if !present {
		s.res.count("getlog_miss_checked", 1)
		if err == nil {
			ex["got"] = describeLog(got)
			s.fail(op, "entry-present-that-should-be-absent", fmt.Sprintf("GetLog(%d) returned %s, the model holds nothing at that index", idx, describeLog(got)), ex)
		} else if err != raft.ErrLogNotFound {
			s.fail(op, "miss-is-not-ErrLogNotFound", fmt.Sprintf("GetLog(%d) on an absent index returned %q, raft expects raft.ErrLogNotFound", idx, err.Error()), ex)
		}
		return
	}
	s.res.count("getlog_hit_checked", 1)
	ex["want"] = describeLog(want)
	if err != nil {
		ex["got_err"] = err.Error()
		s.fail(op, "entry-missing", fmt.Sprintf("GetLog(%d) = %v, the model holds %s", idx, err, describeLog(want)), ex)
		return
	}
	ex["got"] = describeLog(got)
	var bad []string
	if got.Index != want.Index {
		bad = append(bad, "Index")
	}
	if got.Term != want.Term {
		bad = append(bad, "Term")
	}
	if got.Type != want.Type {
		bad = append(bad, "Type")
	}
	if !bytes.Equal(got.Data, want.Data) {
		bad = append(bad, "Data")
	}
	if !bytes.Equal(got.Extensions, want.Extensions) {
		bad = append(bad, "Extensions")
	}
	if len(bad) > 0 {
		s.fail(op, "field-mismatch:"+strings.Join(bad, "+"), fmt.Sprintf("GetLog(%d) returned %s, last stored there: %s", idx, describeLog(got), describeLog(want)), ex)
		return
	}
	s.res.count("log_fields_compared", 5)
	if (got.Data == nil) != (want.Data == nil) || (got.Extensions == nil) != (want.Extensions == nil) {
		s.res.count("info:nil_vs_empty_slice_not_preserved", 1)
	}
}

func (s *logRun) checkFirstLast(op string) {
	var wf, wl uint64
	if ix := s.sortedIdx(); len(ix) > 0 {
		wf, wl = ix[0], ix[len(ix)-1]
	}
	f, err := s.st.FirstIndex()
	if err != nil {
		s.fail(op, "FirstIndex-error", fmt.Sprintf("FirstIndex returned %v", err), nil)
	} else if f != wf {
		s.fail(op, "FirstIndex-wrong", fmt.Sprintf("FirstIndex = %d, the smallest stored index is %d (%d entries)", f, wf, len(s.logs)), map[string]interface{}{"got": f, "want": wf})
	}
	l, err := s.st.LastIndex()
	if err != nil {
		s.fail(op, "LastIndex-error", fmt.Sprintf("LastIndex returned %v", err), nil)
	} else if l != wl {
		s.fail(op, "LastIndex-wrong", fmt.Sprintf("LastIndex = %d, the largest stored index is %d (%d entries)", l, wl, len(s.logs)), map[string]interface{}{"got": l, "want": wl})
	}
	s.reads++
	s.res.count("first_last_checked", 1)
	if len(s.logs) == 0 {
		s.res.count("first_last_checked_on_empty_log", 1)
	}
}

// neighbours returns the model indexes adjacent to [lo, hi] (nearest below, nearest above).
func (s *logRun) neighbours(lo, hi uint64) []uint64 {
	var out []uint64
	ix := s.sortedIdx()
	i := sort.Search(len(ix), func(i int) bool { return ix[i] >= lo })
	if i > 0 {
		out = append(out, ix[i-1])
	}
	j := sort.Search(len(ix), func(i int) bool { return ix[i] > hi })
	if j < len(ix) {
		out = append(out, ix[j])
	}
	return out
}

func (s *logRun) doStore(many bool) {
	var logs []raft.Log
	if !many {
		logs = []raft.Log{s.genLog(s.genIndex())}
	} else {
		n := s.r.Pick(0, 1, 2, 3, 5, 8, 13, 20)
		if s.r.Intn(2) == 0 { // contiguous run, the way raft appends
			start := s.genIndex()
			for i := 0; i < n && start+uint64(i) >= start; i++ {
				logs = append(logs, s.genLog(start+uint64(i)))
			}
		} else {
			for i := 0; i < n; i++ {
				idx := s.genIndex()
				if len(logs) > 0 && s.r.Intn(6) == 0 {
					idx = logs[s.r.Intn(len(logs))].Index // same index twice in one call: the later wins
				}
				logs = append(logs, s.genLog(idx))
			}
		}
	}
	var ds []string
	over := 0
	for _, l := range logs {
		if _, ok := s.logs[l.Index]; ok {
			over++
		}
		if len(ds) < 6 {
			ds = append(ds, describeLog(l))
		}
	}
	kind := "store1"
	if many {
		kind = "storeN"
	}
	s.begin(kind, fmt.Sprintf("n=%d overwrites=%d %s", len(logs), over, strings.Join(ds, " ")))
	var err error
	if many {
		give := make([]*raft.Log, len(logs))
		for i := range logs {
			c := cloneLog(logs[i])
			give[i] = &c
		}
		if len(give) == 0 && s.r.Bool() {
			give = nil
		}
		err = s.st.StoreLogs(give)
	} else {
		c := cloneLog(logs[0])
		err = s.st.StoreLog(&c)
	}
	op := "StoreLog"
	if many {
		op = "StoreLogs"
	}
	if err != nil {
		s.fail(op, "error", fmt.Sprintf("%s returned %v", op, err), nil)
		return
	}
	for _, l := range logs {
		s.logs[l.Index] = cloneLog(l)
	}
	if len(logs) > 0 {
		s.stores++
	}
	s.res.count("entries_stored", int64(len(logs)))
	s.res.count("entries_overwritten", int64(over))
	if len(s.logs) > s.maxLogs {
		s.maxLogs = len(s.logs)
	}
	// read back what was written and its neighbours (a store must not disturb them)
	seen := map[uint64]bool{}
	for _, l := range logs {
		if !seen[l.Index] {
			seen[l.Index] = true
			s.checkGet(l.Index, op)
		}
	}
	if len(logs) > 0 {
		for _, n := range s.neighbours(logs[0].Index, logs[0].Index) {
			s.checkGet(n, op)
		}
	}
	s.checkFirstLast(op)
}

func (s *logRun) doGet() {
	var idx uint64
	mode := "random"
	ix := s.sortedIdx()
	switch x := s.r.Intn(10); {
	case x < 5 && len(ix) > 0:
		idx, mode = ix[s.r.Intn(len(ix))], "stored"
	case x < 7 && len(ix) > 0:
		e := ix[s.r.Pick(0, len(ix)-1, s.r.Intn(len(ix)))]
		if s.r.Bool() {
			idx = e + 1
		} else {
			idx = e - 1
		}
		mode = "adjacent"
	default:
		idx = s.genIndex()
	}
	_, hit := s.logs[idx]
	kind := "get_miss"
	if hit {
		kind = "get_hit"
	}
	s.begin(kind, fmt.Sprintf("%d mode=%s", idx, mode))
	s.checkGet(idx, "GetLog")
}

func (s *logRun) doDeleteRange() {
	ix := s.sortedIdx()
	var lo, hi uint64
	mode := "random"
	pick := func() uint64 {
		if len(ix) == 0 {
			return s.genIndex()
		}
		return ix[s.r.Intn(len(ix))]
	}
	m := s.r.Intn(20)
	if m == 10 || m == 11 {
		m -= 4 // the two ranges raft itself issues get double weight
	}
	switch m {
	case 0, 1: // inside, between two stored indexes
		a, b := pick(), pick()
		if a > b {
			a, b = b, a
		}
		lo, hi, mode = a, b, "inside"
	case 2: // covering everything
		if len(ix) > 0 {
			lo, hi, mode = ix[0], ix[len(ix)-1], "covering-exact"
			if s.r.Bool() && lo > 0 && hi < maxU64-1 {
				lo, hi, mode = lo-1, hi+1, "covering-wider"
			}
		} else {
			lo, hi, mode = 0, maxU64-1, "covering-empty-log"
		}
	case 3: // a range holding no entry
		if len(ix) > 0 && ix[len(ix)-1] < maxU64-10 {
			lo, hi, mode = ix[len(ix)-1]+1, ix[len(ix)-1]+5, "empty-above-last"
		} else if len(ix) > 0 && ix[0] > 10 {
			lo, hi, mode = ix[0]-5, ix[0]-1, "empty-below-first"
		} else {
			lo, hi, mode = s.base+60, s.base+70, "empty"
		}
	case 4: // single index
		lo = pick()
		hi, mode = lo, "single"
	case 5: // min > max: an empty range
		a, b := pick(), pick()
		if a == b {
			b = a + 1 + uint64(s.r.Intn(3))
		}
		if a < b {
			a, b = b, a
		}
		lo, hi, mode = a, b, "inverted"
		if s.r.Intn(3) == 0 && b < maxU64 {
			lo, hi, mode = b+1, b, "inverted-by-one" // what raft's compactLogs issues when nothing is left to compact
		}
	case 6: // prefix: touching the first index (compaction)
		if len(ix) > 0 {
			lo, hi, mode = ix[0], pick(), "prefix-from-first"
		} else {
			lo, hi = 1, 5
		}
	case 7: // suffix: touching the last index (conflict truncation)
		if len(ix) > 0 {
			lo, hi, mode = pick(), ix[len(ix)-1], "suffix-to-last"
		} else {
			lo, hi = 1, 5
		}
	case 8: // from below the first index
		if len(ix) > 0 && ix[0] > 0 {
			lo, hi, mode = ix[0]-1, pick(), "from-below-first"
		} else {
			lo, hi = 0, 3
		}
	case 9: // max = 2^64-1: max+1 overflows inside the store
		lo, hi, mode = pick(), maxU64, "max-is-2^64-1"
		if s.r.Intn(4) == 0 {
			lo = 0
		}
	default:
		a, b := s.genIndex(), s.genIndex()
		if a > b {
			a, b = b, a
		}
		lo, hi = a, b
	}
	if lo > hi && !strings.HasPrefix(mode, "inverted") {
		lo, hi = hi, lo
	}
	var inside []uint64
	if lo <= hi {
		for _, i := range ix {
			if i >= lo && i <= hi {
				inside = append(inside, i)
			}
		}
	}
	nb := s.neighbours(lo, hi)
	if lo > hi {
		nb = s.neighbours(hi, lo)
	}
	s.res.seen("deleterange_shapes", fmt.Sprintf("%s/removes=%s", mode, sizeBucket(len(inside))))
	s.begin("delrange", fmt.Sprintf("[%d,%d] mode=%s removes=%d of %d", lo, hi, mode, len(inside), len(ix)))
	err := s.st.DeleteRange(lo, hi)

	if lo > hi {
		// Empty range: nothing may disappear. RocksDB (>= 6.11) refuses a range tombstone whose end
		// precedes its start and, because the failure happens at memtable insertion, refuses every later
		// write until the store is reopened; the version QED pinned left this undefined. Environment
		// dependent, so: information, then reopen.
		if err != nil {
			s.res.count("info:deleterange_min>max_returns_error", 1)
			s.probePoisoned()
			if !s.reopen("after-inverted-deleterange") {
				return
			}
		}
		for _, i := range append(nb, s.sample(ix, 6)...) {
			s.checkGet(i, "DeleteRange:"+modeClass(mode))
		}
		s.checkFirstLast("DeleteRange:" + modeClass(mode))
		return
	}
	if hi == maxU64 {
		// max+1 wraps to 0 inside the store. Index 2^64-1 is not reachable by raft; observe what the
		// store did, adopt it, and report it separately.
		if err != nil {
			s.res.count("info:deleterange_max=2^64-1_returns_error", 1)
			s.probePoisoned()
			if !s.reopen("after-overflow-deleterange") {
				return
			}
		}
		gone, kept := 0, 0
		for _, i := range inside {
			var l raft.Log
			if e := s.st.GetLog(i, &l); e == raft.ErrLogNotFound {
				gone++
			} else {
				kept++
			}
		}
		switch {
		case len(inside) == 0:
			s.res.count("deleterange_max=2^64-1_on_empty_range", 1)
		case kept == 0:
			for _, i := range inside {
				delete(s.logs, i)
			}
			s.res.count("deleterange_max=2^64-1_removed_the_range", 1)
		case gone == 0:
			s.res.count("info:deleterange_max=2^64-1_removed_nothing(max+1_overflow)", 1)
		default:
			s.fail("DeleteRange:max-is-2^64-1", "partially-removed", fmt.Sprintf("DeleteRange(%d, 2^64-1) removed %d of the %d entries in range", lo, gone, len(inside)), nil)
			for _, i := range inside {
				delete(s.logs, i) // resynchronise: drop and re-audit below
			}
		}
		for _, i := range nb {
			s.checkGet(i, "DeleteRange:max-is-2^64-1")
		}
		return
	}
	if err != nil {
		s.fail("DeleteRange:"+modeClass(mode), "error", fmt.Sprintf("DeleteRange(%d,%d) returned %v", lo, hi, err), nil)
		return
	}
	for _, i := range inside {
		delete(s.logs, i)
	}
	s.res.count("entries_removed_by_deleterange", int64(len(inside)))
	op := "DeleteRange:" + modeClass(mode)
	// inside: gone (ends and a sample); just outside: intact
	check := []uint64{lo, hi}
	check = append(check, s.sample(inside, 6)...)
	check = append(check, nb...)
	if lo > 0 {
		check = append(check, lo-1)
	}
	check = append(check, hi+1)
	done := map[uint64]bool{}
	for _, i := range check {
		if !done[i] {
			done[i] = true
			s.checkGet(i, op)
		}
	}
	s.checkFirstLast(op)
}

// modeClass keeps violation keys stable: the range shape, not its numbers.
func modeClass(mode string) string {
	switch {
	case strings.HasPrefix(mode, "covering"):
		return "covering"
	case strings.HasPrefix(mode, "empty"):
		return "empty-range"
	case strings.HasPrefix(mode, "inverted"):
		return "min>max"
	}
	return mode
}

func (s *logRun) sample(ix []uint64, n int) []uint64 {
	if len(ix) <= n {
		return ix
	}
	out := make([]uint64, 0, n)
	for _, p := range s.r.Perm(len(ix))[:n] {
		out = append(out, ix[p])
	}
	return out
}

// probePoisoned records (as information) whether the store still accepts writes after it refused an
// inverted range. The probe writes a stable-store key that the model tracks only if it succeeded.
func (s *logRun) probePoisoned() {
	k := []byte("probe-after-refused-deleterange")
	if err := s.st.Set(k, []byte{1}); err != nil {
		s.res.count("info:store_refuses_writes_after_refused_deleterange_until_reopen", 1)
	} else {
		s.kv[string(k)] = kvEntry{b: []byte{1}}
	}
}

var stableKeys = [][]byte{[]byte("CurrentTerm"), []byte("LastVoteTerm"), []byte("LastVoteCand"), {0x00}, {0xff}, {0xff, 0xff, 0xff, 0xff, 0xff, 0xff, 0xff, 0xff, 0xff}, []byte("k")}

func (s *logRun) genStableKey() []byte {
	if s.r.Intn(4) == 0 {
		return genAlphaKey(s.r)
	}
	return stableKeys[s.r.Intn(len(stableKeys))]
}

func (s *logRun) doStable() {
	k := s.genStableKey()
	switch s.r.Intn(5) {
	case 0:
		var v []byte
		switch s.r.Intn(5) {
		case 0:
			v = []byte{}
		case 1:
			v = s.r.Bytes(8)
		case 2:
			v = s.r.Bytes(s.r.Range(100, 3000))
		default:
			v = s.r.Bytes(s.r.Range(1, 40))
		}
		s.begin("set", fmt.Sprintf("%s len=%d", hexKey(k), len(v)))
		if err := s.st.Set(append([]byte{}, k...), cloneVal(v)); err != nil {
			s.fail("Set", "error", fmt.Sprintf("Set(%s) returned %v", hexKey(k), err), nil)
			return
		}
		s.kv[string(k)] = kvEntry{b: cloneVal(v)}
		s.checkStable(k, "Set")
	case 1:
		v := termVals[s.r.Intn(len(termVals))]
		if s.r.Bool() {
			v = s.r.Uint64()
		}
		s.begin("setu64", fmt.Sprintf("%s %d", hexKey(k), v))
		if err := s.st.SetUint64(append([]byte{}, k...), v); err != nil {
			s.fail("SetUint64", "error", fmt.Sprintf("SetUint64(%s) returned %v", hexKey(k), err), nil)
			return
		}
		s.kv[string(k)] = kvEntry{isU64: true, u: v}
		s.checkStable(k, "SetUint64")
	default:
		e, ok := s.kv[string(k)]
		kind := "kv_get_missing"
		if ok {
			kind = "kv_get"
		}
		_ = e
		s.begin(kind, hexKey(k))
		s.checkStable(k, "Get")
	}
}

func (s *logRun) checkStable(k []byte, op string) {
	e, ok := s.kv[string(k)]
	s.reads++
	if !ok {
		v, err := s.st.Get(k)
		if err == nil {
			s.fail(op, "value-for-key-never-set", fmt.Sprintf("Get(%s) returned %s, the key was never set", hexKey(k), lib.Hex(v)), nil)
		}
		_, err = s.st.GetUint64(k)
		if err == nil {
			s.fail(op, "uint64-for-key-never-set", fmt.Sprintf("GetUint64(%s) succeeded, the key was never set", hexKey(k)), nil)
		}
		s.res.count("stable_missing_key_checked", 1)
		return
	}
	if e.isU64 {
		v, err := s.st.GetUint64(k)
		if err != nil || v != e.u {
			s.fail(op, "uint64-wrong", fmt.Sprintf("GetUint64(%s) = %d, %v; last set to %d", hexKey(k), v, err, e.u), nil)
		}
		s.res.count("stable_uint64_checked", 1)
		return
	}
	v, err := s.st.Get(k)
	if err != nil || !bytes.Equal(v, e.b) {
		s.fail(op, "value-wrong", fmt.Sprintf("Get(%s) = %s, %v; last set to %s", hexKey(k), lib.Hex(v), err, lib.Hex(e.b)), nil)
	}
	s.res.count("stable_value_checked", 1)
}

func (s *logRun) auditAll(op string) {
	for _, i := range s.sortedIdx() {
		s.checkGet(i, op)
	}
	s.checkFirstLast(op)
	for k := range s.kv {
		s.checkStable([]byte(k), op)
	}
	s.res.count("full_audits", 1)
}

func (s *logRun) reopen(why string) bool {
	s.begin("reopen", fmt.Sprintf("%s entries=%d kv=%d", why, len(s.logs), len(s.kv)))
	if err := s.st.Close(); err != nil {
		s.fail("Close", "error", fmt.Sprintf("Close returned %v", err), nil)
	}
	if err := s.open(); err != nil {
		s.fail("reopen", "open-error", fmt.Sprintf("the log store cannot be reopened: %v", err), nil)
		s.dead = true
		return false
	}
	s.reopens++
	s.res.count("reopens", 1)
	s.auditAll("reopen")
	return true
}

// ----- raft-shaped workload: append, conflict truncation of a suffix, compaction of a prefix -----

func (s *logRun) raftStep(term *uint64) {
	ix := s.sortedIdx()
	var first, last uint64
	if len(ix) > 0 {
		first, last = ix[0], ix[len(ix)-1]
	}
	next := last + 1
	if len(ix) == 0 {
		next = s.base
	}
	switch x := s.r.Intn(100); {
	case x < 40: // leader/follower append of a contiguous run
		n := s.r.Pick(1, 1, 2, 3, 5, 16, 64)
		var give []*raft.Log
		var logs []raft.Log
		for i := 0; i < n; i++ {
			l := s.genLog(next + uint64(i))
			l.Term = *term
			if s.r.Intn(10) != 0 {
				l.Type = raft.LogCommand
			}
			logs = append(logs, l)
			c := cloneLog(l)
			give = append(give, &c)
		}
		s.begin("raft_append", fmt.Sprintf("[%d,%d] term=%d", next, next+uint64(n)-1, *term))
		var err error
		if n == 1 && s.r.Bool() {
			err = s.st.StoreLog(give[0])
		} else {
			err = s.st.StoreLogs(give)
		}
		if err != nil {
			s.fail("StoreLogs", "error", fmt.Sprintf("append returned %v", err), nil)
			return
		}
		for _, l := range logs {
			s.logs[l.Index] = cloneLog(l)
		}
		s.stores++
		s.res.count("entries_stored", int64(n))
		if len(s.logs) > s.maxLogs {
			s.maxLogs = len(s.logs)
		}
		s.checkGet(next, "StoreLogs")
		s.checkGet(next+uint64(n)-1, "StoreLogs")
		s.checkGet(next+uint64(n), "StoreLogs")
		if last != 0 {
			s.checkGet(last, "StoreLogs")
		}
		s.checkFirstLast("StoreLogs")
	case x < 55 && len(ix) > 1: // conflict: delete [i, last], then append from i with a higher term
		i := ix[s.r.Range(1, len(ix)-1)]
		*term++
		s.begin("raft_truncate", fmt.Sprintf("[%d,%d] new term=%d", i, last, *term))
		if err := s.st.DeleteRange(i, last); err != nil {
			s.fail("DeleteRange:suffix-to-last", "error", fmt.Sprintf("DeleteRange(%d,%d) returned %v", i, last, err), nil)
			return
		}
		for _, j := range ix {
			if j >= i {
				delete(s.logs, j)
			}
		}
		s.res.count("raft_conflict_truncations", 1)
		s.checkGet(i, "DeleteRange:suffix-to-last")
		s.checkGet(i-1, "DeleteRange:suffix-to-last")
		s.checkGet(last, "DeleteRange:suffix-to-last")
		s.checkFirstLast("DeleteRange:suffix-to-last")
	case x < 67 && len(ix) > 1: // compaction: delete [first, m]
		m := ix[s.r.Range(0, len(ix)-2)]
		s.begin("raft_compact", fmt.Sprintf("[%d,%d]", first, m))
		if err := s.st.DeleteRange(first, m); err != nil {
			s.fail("DeleteRange:prefix-from-first", "error", fmt.Sprintf("DeleteRange(%d,%d) returned %v", first, m, err), nil)
			return
		}
		for _, j := range ix {
			if j <= m {
				delete(s.logs, j)
			}
		}
		s.res.count("raft_compactions", 1)
		s.checkGet(first, "DeleteRange:prefix-from-first")
		s.checkGet(m, "DeleteRange:prefix-from-first")
		s.checkGet(m+1, "DeleteRange:prefix-from-first")
		s.checkFirstLast("DeleteRange:prefix-from-first")
	case x < 82:
		s.begin("raft_get", "")
		if len(ix) > 0 {
			s.checkGet(ix[s.r.Intn(len(ix))], "GetLog")
			s.checkGet(first-1, "GetLog")
			s.checkGet(last+1, "GetLog")
		} else {
			s.checkGet(s.base, "GetLog")
		}
		s.checkFirstLast("FirstLastIndex")
	case x < 97: // raft's own bookkeeping
		s.begin("raft_stable", fmt.Sprintf("term=%d", *term))
		if err := s.st.SetUint64([]byte("CurrentTerm"), *term); err != nil {
			s.fail("SetUint64", "error", err.Error(), nil)
			return
		}
		s.kv["CurrentTerm"] = kvEntry{isU64: true, u: *term}
		cand := s.r.Bytes(s.r.Range(4, 20))
		if err := s.st.Set([]byte("LastVoteCand"), cloneVal(cand)); err != nil {
			s.fail("Set", "error", err.Error(), nil)
			return
		}
		s.kv["LastVoteCand"] = kvEntry{b: cand}
		s.checkStable([]byte("CurrentTerm"), "SetUint64")
		s.checkStable([]byte("LastVoteCand"), "Set")
		s.checkStable([]byte("LastVoteTerm"), "Get")
	default:
		s.reopen("seeded")
	}
}

func runLogCase(cp casePlan, dir string, oplog *os.File) *caseResult {
	s := &logRun{cp: cp, dir: dir, logs: map[uint64]raft.Log{}, kv: map[string]kvEntry{}, r: lib.NewRand(cp.Seed), res: newResult(cp.ID), oplog: oplog}
	bases := []uint64{1, 1, 1000, 1<<32 - 25, 1<<63 - 25, maxU64 - 70}
	s.base = bases[s.r.Intn(len(bases))]
	if cp.Kind == "raftlog:raft" {
		s.base = bases[s.r.Intn(len(bases)-1)] // dense appends must not run past 2^64-1
	}
	if err := s.open(); err != nil {
		s.res.Incon = append(s.res.Incon, fmt.Sprintf("cannot open raft log store: %v", err))
		return s.res
	}
	if cp.Kind == "raftlog:concurrent" {
		s.base = []uint64{1, 1000, 1<<32 - 2500}[s.r.Intn(3)]
		s.begin("concurrent", fmt.Sprintf("entries=%d base=%d", cp.Ops, s.base))
		s.runConcurrent()
		if !s.dead {
			s.begin("close", "")
			if err := s.st.Close(); err != nil {
				s.fail("Close", "error", fmt.Sprintf("Close returned %v", err), nil)
			}
		}
		s.res.Sig = fmt.Sprintf("%s|base=%d|max=%s", cp.Kind, s.base, sizeBucket(s.maxLogs))
		s.res.Nontrivial = s.stores >= 1 && s.reads >= 10
		s.res.Sample = map[string]interface{}{"id": cp.ID, "kind": cp.Kind, "base_index": s.base, "entries": s.maxLogs, "last_ops": s.recent}
		return s.res
	}
	// an empty store: FirstIndex = LastIndex = 0, everything misses
	s.begin("first_last", "fresh store")
	s.checkFirstLast("FirstLastIndex")
	term := uint64(1)
	for i := 0; i < cp.Ops && !s.dead; i++ {
		if cp.Kind == "raftlog:raft" {
			s.raftStep(&term)
			continue
		}
		switch x := s.r.Intn(100); {
		case x < 14:
			s.doStore(false)
		case x < 32:
			s.doStore(true)
		case x < 50:
			s.doGet()
		case x < 64:
			s.doDeleteRange()
		case x < 72:
			s.begin("first_last", fmt.Sprintf("entries=%d", len(s.logs)))
			s.checkFirstLast("FirstLastIndex")
		case x < 98:
			s.doStable()
		default:
			s.reopen("seeded")
		}
	}
	if !s.dead {
		s.begin("final_audit", fmt.Sprintf("entries=%d", len(s.logs)))
		s.auditAll("final-audit")
		s.begin("close", "")
		if err := s.st.Close(); err != nil {
			s.fail("Close", "error", fmt.Sprintf("Close returned %v", err), nil)
		}
	}
	s.res.seen("log_sizes_reached", sizeBucket(s.maxLogs))
	s.res.Sig = fmt.Sprintf("%s|base=%d|max=%s|reopens=%d|big=%d", cp.Kind, s.base, sizeBucket(s.maxLogs), minInt(s.reopens, 3), s.bigData)
	s.res.Nontrivial = s.stores >= 1 && s.reads >= 10
	s.res.Sample = map[string]interface{}{"id": cp.ID, "kind": cp.Kind, "base_index": s.base, "entries_at_end": len(s.logs),
		"max_entries": s.maxLogs, "reopens": s.reopens, "last_ops": s.recent}
	return s.res
}

func init() {
	Workers["stores-c15"] = func(args []string) int { return workerMain(args, runLogCase) }
}

// RunC15 plans the cases from the seed and runs them in child processes.
func RunC15(c *lib.Ctx) {
	c.Rule = "case = one seeded sequence of 80 operations on the store opened by consensus.VerifNewRaftLog: StoreLog / StoreLogs (gaps, overwrites, " +
		"same index twice in a call, every LogType, nil/empty/1 MB data, extensions, terms up to 2^64-1), GetLog hit/miss, DeleteRange " +
		"(inside, covering, empty, single, min>max, prefix, suffix, max=2^64-1), FirstIndex/LastIndex, Set/Get/SetUint64/GetUint64, close/reopen; " +
		"or a raft-shaped sequence (contiguous appends, conflict truncation of a suffix, compaction of a prefix, term/vote bookkeeping). " +
		"Every mutating call is followed by a read-back of the touched indexes and their neighbours; reopen and the end of a case by a full read-back, " +
		"all compared with a map model. Concurrency annex: one appender (StoreLog/StoreLogs), three readers (GetLog of indexes whose store call has returned) and a prefix compactor (DeleteRange) on one store, every entry a function of its index, then a quiescent audit. shape = workload x index base x largest log bucket x reopens x 1MB payloads. Non-trivial = at least one stored entry and >= 10 checked reads."
	c.Assume = []string{
		"nil and empty byte slices in Data/Extensions are the same value (raft does not distinguish them); flips are counted as information",
		"GetLog is handed a zero raft.Log, as raft does",
		"DeleteRange with max = 2^64-1 (max+1 overflows) is reported as information: raft cannot reach that index",
		"DeleteRange with min > max is an empty range: nothing may be removed; the error RocksDB >= 6.11 returns for it, and the write refusal that follows until reopen, are recorded as information because the RocksDB version QED pinned left the case undefined",
		"GetUint64 is only compared for keys last written with SetUint64, Get only for keys last written with Set",
		"RocksDB 7.8.3 (Debian) through /verif/native shim instead of the 6.x QED pinned",
	}
	c.Extra("information_counters", map[string]string{
		"info:deleterange_min>max_returns_error":                           "DeleteRange(min>max) removed nothing (as it must) but returned RocksDB's 'end key comes before start key'",
		"info:store_refuses_writes_after_refused_deleterange_until_reopen": "after that refusal a probe write was refused too: RocksDB holds a background error until the store is reopened",
		"info:deleterange_max=2^64-1_removed_nothing(max+1_overflow)":      "DeleteRange(min, 2^64-1) left the entries in place: max+1 wraps to 0",
		"info:nil_vs_empty_slice_not_preserved":                            "a nil Data/Extensions came back empty or vice versa (same value for raft)",
	})
	n := c.Q(200, 2000)
	r := c.Rand("c15-plan")
	var cases []casePlan
	for i := 0; i < n; i++ {
		kind := "raftlog:mixed"
		if i%4 == 3 {
			kind = "raftlog:raft"
		}
		cases = append(cases, casePlan{ID: fmt.Sprintf("log/%d", i), Kind: kind, Seed: r.Uint64(), Ops: 80})
	}
	// concurrency annex: raft calls its log store from several goroutines at once
	for i := 0; i < c.Q(6, 30); i++ {
		cases = append(cases, casePlan{ID: fmt.Sprintf("conc/%d", i), Kind: "raftlog:concurrent", Seed: r.Uint64(), Ops: c.Q(6000, 20000)})
	}
	runCases(c, "stores-c15", cases, 8, time.Duration(c.Q(10, 40))*time.Minute)
	if c.Only == "" {
		for _, k := range []string{"store1", "storeN", "get_hit", "get_miss", "delrange", "set", "setu64", "kv_get_missing", "reopen", "raft_append", "raft_truncate", "raft_compact"} {
			if c.Counter("ops_checked:"+k) == 0 {
				c.Inconclusive("no " + k + " operation was checked")
			}
		}
	}
}
