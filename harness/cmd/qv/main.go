// qv: the monitors' driver. `qv run <property> [--tier quick|thorough] [--seed n] [--only id]`
// and worker sub-commands used as child processes.
package main

import (
	"encoding/json"
	"flag"
	"fmt"
	"io"
	"io/ioutil"
	"os"
	"os/exec"
	"path/filepath"
	"runtime/pprof"
	"strconv"
	"strings"
	"sync"

	"qedverif/lib"
	"qedverif/props/clientp"
	"qedverif/props/cluster"
	"qedverif/props/gossipp"
	"qedverif/props/hostile"
	"qedverif/props/stores"
	"qedverif/props/tree"
)

var runners = map[string]func(*lib.Ctx){
	"C01": tree.RunC01, "C02": tree.RunC02, "C03": tree.RunC03, "C04": tree.RunC04, "C13": tree.RunC13,
	"C05": cluster.RunC05, "C06": cluster.RunC06, "C07": cluster.RunC07, "C08": cluster.RunC08,
	"C09": cluster.RunC09, "C10": cluster.RunC10, "C16": cluster.RunC16,
	"C11": hostile.RunC11, "C12": hostile.RunC12,
	"C14": stores.RunC14, "C15": stores.RunC15,
	"C17": gossipp.RunC17, "C18": gossipp.RunC18, "C19": gossipp.RunC19,
	"C20": clientp.RunC20,
}

var workers = map[string]func(args []string) int{}

func init() {
	for _, m := range []map[string]func([]string) int{tree.Workers, cluster.Workers, hostile.Workers, stores.Workers, gossipp.Workers, clientp.Workers} {
		for k, v := range m {
			workers[k] = v
		}
	}
}

func main() {
	if len(os.Args) < 2 {
		fmt.Fprintln(os.Stderr, "usage: qv run <property> [--tier t] [--seed n] | qv worker <name> ...")
		os.Exit(2)
	}
	if pf := os.Getenv("QV_CPUPROFILE"); pf != "" {
		f, err := os.Create(pf)
		if err == nil {
			pprof.StartCPUProfile(f)
		}
	}
	code := realMain()
	pprof.StopCPUProfile()
	os.Exit(code)
}

func realMain() int {
	switch os.Args[1] {
	case "worker":
		w, ok := workers[os.Args[2]]
		if !ok {
			fmt.Fprintln(os.Stderr, "unknown worker", os.Args[2])
			return 2
		}
		return w(os.Args[3:])
	case "replay":
		buf, err := ioutil.ReadFile(os.Args[2])
		if err != nil {
			fmt.Fprintln(os.Stderr, err)
			return 2
		}
		var rep struct {
			Property string
			Tier     string
			Seed     int64
			Detail   map[string]interface{}
		}
		if err := json.Unmarshal(buf, &rep); err != nil {
			fmt.Fprintln(os.Stderr, err)
			return 2
		}
		run, ok := runners[rep.Property]
		if !ok {
			fmt.Fprintln(os.Stderr, "unknown property", rep.Property)
			return 2
		}
		c := lib.NewCtx(rep.Property, rep.Tier, rep.Seed, envOr("VERIF_ROOT", "/verif"))
		if id, ok := rep.Detail["id"].(string); ok {
			c.Only = id
		}
		c.NoEvidence = true
		fmt.Printf("replaying %s tier=%s seed=%d case=%q\n", rep.Property, rep.Tier, rep.Seed, c.Only)
		run(c)
		return c.Finish()
	case "run":
		return supervise(os.Args[2], os.Args[3:])
	case "run-inner":
		prop := os.Args[2]
		fs := flag.NewFlagSet("run", flag.ExitOnError)
		tier := fs.String("tier", envOr("VERIF_TIER", "quick"), "quick|thorough")
		seedDef, _ := strconv.ParseInt(envOr("VERIF_SEED", "1"), 10, 64)
		seed := fs.Int64("seed", seedDef, "seed")
		only := fs.String("only", "", "run only this case id (replay)")
		root := fs.String("root", envOr("VERIF_ROOT", "/verif"), "verif root")
		fs.Parse(os.Args[3:])
		run, ok := runners[prop]
		if !ok {
			fmt.Fprintln(os.Stderr, "unknown property", prop)
			return 2
		}
		c := lib.NewCtx(prop, *tier, *seed, *root)
		c.Only = *only
		run(c)
		return c.Finish()
	default:
		fmt.Fprintln(os.Stderr, "unknown command", os.Args[1])
		return 2
	}
}

// supervise runs the check in a child process. Some defects kill the whole process (a panic in a
// goroutine QED spawns, log.Fatalf, an abort inside RocksDB): the supervisor turns such a death into a
// VIOLATION with the crash output as witness instead of a check that merely "broke".
func supervise(prop string, args []string) int {
	self, err := os.Executable()
	if err != nil {
		fmt.Fprintln(os.Stderr, err)
		return 2
	}
	if _, ok := runners[prop]; !ok {
		fmt.Fprintln(os.Stderr, "unknown property", prop)
		return 2
	}
	cmd := exec.Command(self, append([]string{"run-inner", prop}, args...)...)
	var tailBuf tailWriter
	cmd.Stdout = io.MultiWriter(os.Stdout, &tailBuf)
	cmd.Stderr = io.MultiWriter(os.Stderr, &tailBuf)
	cmd.Stdin = nil
	err = cmd.Run()
	if cmd.Process != nil { // the child's scratch directory, in case it died before removing it
		base := envOr("QV_SCRATCH", "/var/tmp")
		if m, _ := filepath.Glob(filepath.Join(base, fmt.Sprintf("qv-%s-*-%d", prop, cmd.Process.Pid))); len(m) == 1 {
			os.RemoveAll(m[0])
		}
	}
	code := 0
	if err != nil {
		code = -1
		if ee, ok := err.(*exec.ExitError); ok {
			code = ee.ExitCode()
		}
	}
	if code == 0 || code == 1 || code == 3 {
		return code
	}
	// abnormal death
	root := envOr("VERIF_ROOT", "/verif")
	tier, seed := envOr("VERIF_TIER", "quick"), envOr("VERIF_SEED", "1")
	for i, a := range args {
		if a == "--root" && i+1 < len(args) {
			root = args[i+1]
		}
		if a == "--tier" && i+1 < len(args) {
			tier = args[i+1]
		}
		if a == "--seed" && i+1 < len(args) {
			seed = args[i+1]
		}
	}
	out := tailBuf.String()
	site := "unknown"
	lines := strings.Split(out, "\n")
	for i, ln := range lines {
		if strings.HasPrefix(ln, "panic:") || strings.HasPrefix(ln, "fatal error:") || strings.Contains(ln, "Assertion") {
			site = strings.TrimSpace(ln)
			if len(site) > 120 {
				site = site[:120]
			}
			for _, l2 := range lines[i:] {
				if strings.HasPrefix(l2, "github.com/bbva/qed/") {
					f := strings.TrimPrefix(l2, "github.com/bbva/qed/")
					if j := strings.LastIndex(f, "("); j > 0 {
						f = f[:j]
					}
					site = f
					break
				}
			}
			break
		}
	}
	os.MkdirAll(filepath.Join(root, "replays"), 0755)
	path := filepath.Join(root, "replays", fmt.Sprintf("%s-%s-seed%s-crash.log", prop, tier, seed))
	ioutil.WriteFile(path, []byte(out), 0644)
	seedN, _ := strconv.ParseInt(seed, 10, 64)
	ev := map[string]interface{}{
		"property_id": prop, "tier": tier, "seed": seedN, "level": "other", "wall_s": 0.0, "violations": 1,
		"coverage": map[string]interface{}{"explanation": fmt.Sprintf("the check process died (exit %d) while driving the code under test: %s; the tail of its output is in %s", code, site, path)},
	}
	buf, _ := json.MarshalIndent(ev, "", " ")
	os.MkdirAll(filepath.Join(root, "evidence"), 0755)
	ioutil.WriteFile(filepath.Join(root, "evidence", prop+".json"), buf, 0644)
	fmt.Printf("VIOLATION property=%s replay=%s\n  key=%s:process-died:%s\n  what=the process running the real code died (exit %d): %s\n", prop, path, prop, site, code, site)
	fmt.Printf("RESULT property=%s violated (the check process was killed by the code under test)\n", prop)
	return 1
}

// tailWriter keeps the last 256 KiB written to it.
type tailWriter struct {
	mu  sync.Mutex
	buf []byte
}

func (t *tailWriter) Write(p []byte) (int, error) {
	t.mu.Lock()
	t.buf = append(t.buf, p...)
	if len(t.buf) > 256<<10 {
		t.buf = t.buf[len(t.buf)-(256<<10):]
	}
	t.mu.Unlock()
	return len(p), nil
}

func (t *tailWriter) String() string {
	t.mu.Lock()
	defer t.mu.Unlock()
	return string(t.buf)
}

func envOr(k, d string) string {
	if v := os.Getenv(k); v != "" {
		return v
	}
	return d
}
