// qv: the monitors' driver. `qv run <property> [--tier quick|thorough] [--seed n] [--only id]`
// and worker sub-commands used as child processes.
package main

import (
	"encoding/json"
	"flag"
	"fmt"
	"io/ioutil"
	"os"
	"runtime/pprof"
	"strconv"

	"qedverif/lib"
	"qedverif/props/clientp"
	"qedverif/props/cluster"
	"qedverif/props/gossipp"
	"qedverif/props/hostile"
	"qedverif/props/stores"
	"qedverif/props/tree"
)

var runners = map[string]func(*lib.Ctx){
	"C01": tree.RunC01, "C02": tree.RunC02, "C03": tree.RunC03, "C04": tree.RunC04, "C13": tree.RunC13,
	"C05": cluster.RunC05, "C06": cluster.RunC06, "C07": cluster.RunC07, "C08": cluster.RunC08,
	"C09": cluster.RunC09, "C10": cluster.RunC10, "C16": cluster.RunC16,
	"C11": hostile.RunC11, "C12": hostile.RunC12,
	"C14": stores.RunC14, "C15": stores.RunC15,
	"C17": gossipp.RunC17, "C18": gossipp.RunC18, "C19": gossipp.RunC19,
	"C20": clientp.RunC20,
}

var workers = map[string]func(args []string) int{}

func init() {
	for _, m := range []map[string]func([]string) int{tree.Workers, cluster.Workers, hostile.Workers, stores.Workers, gossipp.Workers, clientp.Workers} {
		for k, v := range m {
			workers[k] = v
		}
	}
}

func main() {
	if len(os.Args) < 2 {
		fmt.Fprintln(os.Stderr, "usage: qv run <property> [--tier t] [--seed n] | qv worker <name> ...")
		os.Exit(2)
	}
	if pf := os.Getenv("QV_CPUPROFILE"); pf != "" {
		f, err := os.Create(pf)
		if err == nil {
			pprof.StartCPUProfile(f)
		}
	}
	code := realMain()
	pprof.StopCPUProfile()
	os.Exit(code)
}

func realMain() int {
	switch os.Args[1] {
	case "worker":
		w, ok := workers[os.Args[2]]
		if !ok {
			fmt.Fprintln(os.Stderr, "unknown worker", os.Args[2])
			return 2
		}
		return w(os.Args[3:])
	case "replay":
		buf, err := ioutil.ReadFile(os.Args[2])
		if err != nil {
			fmt.Fprintln(os.Stderr, err)
			return 2
		}
		var rep struct {
			Property string
			Tier     string
			Seed     int64
			Detail   map[string]interface{}
		}
		if err := json.Unmarshal(buf, &rep); err != nil {
			fmt.Fprintln(os.Stderr, err)
			return 2
		}
		run, ok := runners[rep.Property]
		if !ok {
			fmt.Fprintln(os.Stderr, "unknown property", rep.Property)
			return 2
		}
		c := lib.NewCtx(rep.Property, rep.Tier, rep.Seed, envOr("VERIF_ROOT", "/verif"))
		if id, ok := rep.Detail["id"].(string); ok {
			c.Only = id
		}
		c.NoEvidence = true
		fmt.Printf("replaying %s tier=%s seed=%d case=%q\n", rep.Property, rep.Tier, rep.Seed, c.Only)
		run(c)
		return c.Finish()
	case "run":
		prop := os.Args[2]
		fs := flag.NewFlagSet("run", flag.ExitOnError)
		tier := fs.String("tier", envOr("VERIF_TIER", "quick"), "quick|thorough")
		seedDef, _ := strconv.ParseInt(envOr("VERIF_SEED", "1"), 10, 64)
		seed := fs.Int64("seed", seedDef, "seed")
		only := fs.String("only", "", "run only this case id (replay)")
		root := fs.String("root", envOr("VERIF_ROOT", "/verif"), "verif root")
		fs.Parse(os.Args[3:])
		run, ok := runners[prop]
		if !ok {
			fmt.Fprintln(os.Stderr, "unknown property", prop)
			return 2
		}
		c := lib.NewCtx(prop, *tier, *seed, *root)
		c.Only = *only
		run(c)
		return c.Finish()
	default:
		fmt.Fprintln(os.Stderr, "unknown command", os.Args[1])
		return 2
	}
}

func envOr(k, d string) string {
	if v := os.Getenv(k); v != "" {
		return v
	}
	return d
}
