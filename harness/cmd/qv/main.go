// qv: the monitors' driver. `qv run <property> [--tier quick|thorough] [--seed n] [--only id]`
// and worker sub-commands used as child processes.
package main

import (
	"flag"
	"fmt"
	"os"
	"strconv"

	"qedverif/lib"
	"qedverif/props/tree"
)

var runners = map[string]func(*lib.Ctx){
	"C04": tree.RunC04,
}

var workers = map[string]func(args []string) int{}

func main() {
	if len(os.Args) < 2 {
		fmt.Fprintln(os.Stderr, "usage: qv run <property> [--tier t] [--seed n] | qv worker <name> ...")
		os.Exit(2)
	}
	switch os.Args[1] {
	case "worker":
		w, ok := workers[os.Args[2]]
		if !ok {
			fmt.Fprintln(os.Stderr, "unknown worker", os.Args[2])
			os.Exit(2)
		}
		os.Exit(w(os.Args[3:]))
	case "run":
		prop := os.Args[2]
		fs := flag.NewFlagSet("run", flag.ExitOnError)
		tier := fs.String("tier", envOr("VERIF_TIER", "quick"), "quick|thorough")
		seedDef, _ := strconv.ParseInt(envOr("VERIF_SEED", "1"), 10, 64)
		seed := fs.Int64("seed", seedDef, "seed")
		only := fs.String("only", "", "run only this case id (replay)")
		root := fs.String("root", envOr("VERIF_ROOT", "/verif"), "verif root")
		fs.Parse(os.Args[3:])
		run, ok := runners[prop]
		if !ok {
			fmt.Fprintln(os.Stderr, "unknown property", prop)
			os.Exit(2)
		}
		c := lib.NewCtx(prop, *tier, *seed, *root)
		c.Only = *only
		run(c)
		os.Exit(c.Finish())
	default:
		fmt.Fprintln(os.Stderr, "unknown command", os.Args[1])
		os.Exit(2)
	}
}

func envOr(k, d string) string {
	if v := os.Getenv(k); v != "" {
		return v
	}
	return d
}
