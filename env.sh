# sourced by ./check and setup: environment that lets /repo's rocksdb-dependent code build offline
VERIF_ROOT="${VERIF_ROOT:-$(cd "$(dirname "${BASH_SOURCE[0]}")" && pwd)}"
export VERIF_ROOT
export GOFLAGS=-mod=mod GOPROXY=off GOSUMDB=off GOTOOLCHAIN=local
export CGO_ENABLED=1
export CGO_LDFLAGS_ALLOW='-Wl,-unresolved_symbols=ignore-all'
QED_SHIM_REV=$(cat "$VERIF_ROOT"/native/include/rocksdb/c.h "$VERIF_ROOT"/native/include/rocksdb/utilities/backupable_db.h "$VERIF_ROOT"/native/shim.c "$VERIF_ROOT"/native/bin/cxx17 | sha256sum | cut -c1-16)
export CGO_CFLAGS="-I$VERIF_ROOT/native/include -DQED_SHIM_REV=$QED_SHIM_REV -O2 -g"
export CGO_CXXFLAGS="-I$VERIF_ROOT/native/include -DQED_SHIM_REV=$QED_SHIM_REV -O2 -g"
export CGO_LDFLAGS="-L$VERIF_ROOT/native/lib"
export CXX="$VERIF_ROOT/native/bin/cxx17"
export QV_SCRATCH="${QV_SCRATCH:-/var/tmp}"
